import ConjureVerif.Model.Wrap
import ConjureVerif.Lemmas.Base64
import ConjureVerif.Lemmas.Dec
import ConjureVerif.Lemmas.Plain
set_option linter.unusedSimpArgs false

namespace ConjureVerif.Data

def Fields.append : Fields → Fields → Fields
  | .nil, gs => gs
  | .cons n t fs, gs => .cons n t (fs.append gs)

def Fields.length : Fields → Nat
  | .nil => 0
  | .cons _ _ fs => fs.length + 1

def Fields.snoc (fs : Fields) (n : List Nat) (t : Ty) : Fields := fs.append (.cons n t .nil)

theorem Fields.append_snoc : ∀ (pre : Fields) (n : List Nat) (t : Ty) (rest : Fields),
    (pre.snoc n t).append rest = pre.append (.cons n t rest)
  | .nil, _, _, _ => rfl
  | .cons m s fs, n, t, rest => by
    have := Fields.append_snoc fs n t rest
    simp only [Fields.snoc, Fields.append] at this ⊢; rw [this]

theorem Fields.length_snoc : ∀ (pre : Fields) (n : List Nat) (t : Ty), (pre.snoc n t).length = pre.length + 1
  | .nil, _, _ => rfl
  | .cons m s fs, n, t => by
    have := Fields.length_snoc fs n t
    simp only [Fields.snoc, Fields.append, Fields.length] at this ⊢; rw [this]

theorem Fields.names_append : ∀ (a b : Fields), (a.append b).names = a.names ++ b.names
  | .nil, _ => rfl
  | .cons m s fs, b => by simp [Fields.append, Fields.names, Fields.names_append fs b]

theorem Fields.names_snoc (a : Fields) (n : List Nat) (t : Ty) : (a.snoc n t).names = a.names ++ [n] := by
  simp [Fields.snoc, Fields.names_append, Fields.names]

end ConjureVerif.Data

namespace ConjureVerif.Wrap
open ConjureVerif.Data

@[simp] theorem map_ok {α β ε : Type} (f : α → β) (a : α) : Except.map f (.ok a : Except ε α) = .ok (f a) := rfl
@[simp] theorem map_error {α β ε : Type} (f : α → β) (e : ε) : Except.map f (.error e : Except ε α) = .error e := rfl

def Bytes (bs : List Nat) : Prop := ∀ b ∈ bs, b < 256

theorem fieldIndex_append : ∀ (pre : Fields) (n : List Nat) (t : Ty) (rest : Fields) (i0 : Nat),
    n ∉ pre.names → fieldIndex (pre.append (.cons n t rest)) n i0 = some (i0 + pre.length, t)
  | .nil, n, t, rest, i0, _ => by simp [Fields.append, fieldIndex, Fields.length]
  | .cons m s fs, n, t, rest, i0, h => by
    have hm : m ≠ n := fun e => h (by simp [Fields.names, e])
    have hr : n ∉ fs.names := fun e => h (by simp [Fields.names, e])
    simp only [Fields.append, fieldIndex, hm, if_false, Fields.length]
    rw [fieldIndex_append fs n t rest (i0 + 1) hr]; congr 2; omega

/-- `(k, v₀), (k+1, v₁), …` -/
def enumFrom : Nat → FVals → List (Nat × Val)
  | _, .nil => []
  | k, .cons v vs => (k, v) :: enumFrom (k + 1) vs

theorem lookup_lt {acc : List (Nat × Val)} {k : Nat} (h : ∀ p ∈ acc, p.1 < k) : acc.lookup k = none := by
  induction acc with
  | nil => rfl
  | cons p ps ih =>
    obtain ⟨i, v⟩ := p
    have hi : i < k := h (i, v) List.mem_cons_self
    have : (k == i) = false := by simp; omega
    simp only [List.lookup, this]
    exact ih (fun q hq => h q (List.mem_cons_of_mem _ hq))

theorem lookup_enumFrom_lt : ∀ (vs : FVals) (k j : Nat), j < k → (enumFrom k vs).lookup j = none
  | .nil, _, _, _ => rfl
  | .cons v vs, k, j, h => by
    have : (j == k) = false := by simp; omega
    simp only [enumFrom, List.lookup, this]
    exact lookup_enumFrom_lt vs (k + 1) j (by omega)

theorem lookup_append_of_lt (acc rest : List (Nat × Val)) (j : Nat) (h : ∀ p ∈ acc, p.1 < j) :
    (acc ++ rest).lookup j = rest.lookup j := by
  induction acc with
  | nil => rfl
  | cons p ps ih =>
    obtain ⟨i, w⟩ := p
    have hi : i < j := h (i, w) List.mem_cons_self
    have : (j == i) = false := by simp; omega
    simp only [List.cons_append, List.lookup, this]
    exact ih (fun q hq => h q (List.mem_cons_of_mem _ hq))

/-- values and fields have the same length -/
def SameLen : Fields → FVals → Prop
  | .nil, .nil => True
  | .cons _ _ fs, .cons _ vs => SameLen fs vs
  | _, _ => False

/-- reading the fields back out of `(k, v₀), (k+1, v₁), …` in declaration order -/
theorem assemble_enumFrom : ∀ (fs : Fields) (vs : FVals) (k : Nat) (pre : List (Nat × Val)),
    SameLen fs vs → (∀ p ∈ pre, p.1 < k) → assemble fs k (pre ++ enumFrom k vs) = .ok vs
  | .nil, .nil, _, _, _, _ => rfl
  | .nil, .cons _ _, _, _, h, _ => by simp [SameLen] at h
  | .cons _ _ _, .nil, _, _, h, _ => by simp [SameLen] at h
  | .cons n t fs, .cons v vs, k, pre, hl, hpre => by
    have hfound : (pre ++ enumFrom k (.cons v vs)).lookup k = some v := by
      rw [lookup_append_of_lt pre _ k hpre]; simp [enumFrom, List.lookup]
    have hrec := assemble_enumFrom fs vs (k + 1) (pre ++ [(k, v)]) hl (by
      intro p hp
      rcases List.mem_append.mp hp with h | h
      · have := hpre p h; omega
      · simp at h; subst h; simp)
    simp only [assemble, hfound]
    have e : pre ++ enumFrom k (.cons v vs) = pre ++ [(k, v)] ++ enumFrom (k + 1) vs := by
      simp [enumFrom]
    rw [e, hrec]; rfl

end ConjureVerif.Wrap
