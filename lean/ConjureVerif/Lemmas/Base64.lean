import ConjureVerif.Model.Base64
namespace ConjureVerif.Base64

theorem val_ch (n : Nat) (h : n < 64) : val (ch n) = some n := by
  unfold ch
  split
  · unfold val; rw [if_pos (by omega)]; congr 1; omega
  · split
    · unfold val; rw [if_neg (by omega), if_pos (by omega)]; congr 1; omega
    · split
      · unfold val; rw [if_neg (by omega), if_neg (by omega), if_pos (by omega)]; congr 1; omega
      · split
        · unfold val; rw [if_neg (by omega), if_neg (by omega), if_neg (by omega), if_pos rfl]; congr 1; omega
        · unfold val
          rw [if_neg (by omega), if_neg (by omega), if_neg (by omega), if_neg (by omega), if_pos rfl]
          congr 1; omega

theorem ch_ne_pad (n : Nat) (h : n < 64) : ch n ≠ 61 := by
  unfold ch
  split <;> (try split) <;> (try split) <;> (try split) <;> omega

/-- decoding inverts encoding for every byte string -/
theorem decode_encode : ∀ (bs : List Nat), (∀ b ∈ bs, b < 256) → decode (encode bs) = some bs
  | [], _ => by simp [encode, decode]
  | [a], h => by
    have ha : a < 256 := h a (by simp)
    simp only [encode, decode]
    rw [val_ch _ (by omega), val_ch _ (by omega)]
    simp only
    rw [if_pos (by omega)]
    congr 2; omega
  | [a, b], h => by
    have ha : a < 256 := h a (by simp)
    have hb : b < 256 := h b (by simp)
    have hne : ch ((b % 16) * 4) ≠ 61 := ch_ne_pad _ (by omega)
    simp only [encode]
    rw [decode]
    · rw [val_ch _ (by omega), val_ch _ (by omega), val_ch _ (by omega)]
      simp only
      rw [if_pos (by omega)]
      congr 2
      · omega
      · congr 1; omega
    · intro heq; exact hne heq
  | a :: b :: c :: rest, h => by
    have ha : a < 256 := h a (by simp)
    have hb : b < 256 := h b (by simp)
    have hc : c < 256 := h c (by simp)
    have hr : ∀ x ∈ rest, x < 256 := fun x hx => h x (by simp [hx])
    have ih := decode_encode rest hr
    have hne4 : ch (c % 64) ≠ 61 := ch_ne_pad _ (by omega)
    have hne3 : ch ((b % 16) * 4 + c / 64) ≠ 61 := ch_ne_pad _ (by omega)
    simp only [encode]
    rw [decode]
    · rw [val_ch _ (by omega), val_ch _ (by omega), val_ch _ (by omega), val_ch _ (by omega), ih]
      simp only
      congr 2
      · omega
      · congr 1
        · omega
        · congr 1; omega
    · intro heq; exact absurd heq hne3
    · intro heq; exact absurd heq hne4

end ConjureVerif.Base64
