import ConjureVerif.Model.LogSafety
set_option linter.unusedSimpArgs false
namespace ConjureVerif.LogSafety

def kids (defs : List Def) (t : Nat) : List Nat := (nodeAt defs t).2
def ownOk (defs : List Def) (t : Nat) : Bool := (nodeAt defs t).1

/-- `u` is reachable from `t` through undeclared references -/
inductive Reach (defs : List Def) : Nat → Nat → Prop
  | refl (t) : Reach defs t t
  | step (t c u) : c ∈ kids defs t → Reach defs c u → Reach defs t u

/-- path of length `n` from `t` to `u` all of whose nodes avoid `P` -/
inductive RA (defs : List Def) (P : List Nat) : Nat → Nat → Nat → Prop
  | refl (t) : t ∉ P → RA defs P t t 0
  | step (t c u n) : t ∉ P → c ∈ kids defs t → RA defs P c u n → RA defs P t u (n + 1)

theorem RA.head_notin {defs P t u n} (h : RA defs P t u n) : t ∉ P := by cases h <;> assumption

theorem RA.toReach {defs P t u n} (h : RA defs P t u n) : Reach defs t u := by
  induction h with
  | refl t _ => exact .refl t
  | step t c u n _ hc _ ih => exact .step t c u hc ih

theorem Reach.toRA {defs t u} (h : Reach defs t u) : ∃ n, RA defs [] t u n := by
  induction h with
  | refl t => exact ⟨0, .refl t (by simp)⟩
  | step t c u hc _ ih => obtain ⟨n, hn⟩ := ih; exact ⟨n + 1, .step t c u n (by simp) hc hn⟩

theorem Reach.trans {defs t c u} (h1 : Reach defs t c) (h2 : Reach defs c u) : Reach defs t u := by
  induction h1 with
  | refl _ => exact h2
  | step t c' _ hc _ ih => exact .step t c' u hc (ih h2)

theorem RA.avoid_or_cut {defs : List Def} {P : List Nat} (t : Nat) {c u n} (h : RA defs P c u n) :
    RA defs (t :: P) c u n ∨ ∃ m, m ≤ n ∧ RA defs P t u m := by
  induction h with
  | refl c hc =>
    by_cases hct : c = t
    · subst hct; exact .inr ⟨0, Nat.le_refl _, .refl _ hc⟩
    · exact .inl (.refl _ (by simp [hct, hc]))
  | step c d u n hc hd hr ih =>
    by_cases hct : c = t
    · subst hct; exact .inr ⟨n + 1, Nat.le_refl _, .step _ _ _ _ hc hd hr⟩
    · rcases ih with ih | ⟨m, hm, hr'⟩
      · exact .inl (.step _ _ _ _ (by simp [hct, hc]) hd ih)
      · exact .inr ⟨m, by omega, hr'⟩

/-- cut a path at the last visit of its first node -/
theorem RA.last_occurrence {defs : List Def} {P : List Nat} : ∀ n {t u}, RA defs P t u n →
    t = u ∨ ∃ c ∈ kids defs t, ∃ m, RA defs (t :: P) c u m := by
  intro n
  induction n using Nat.strongRecOn with
  | _ n ih =>
    intro t u h
    cases h with
    | refl _ _ => exact .inl rfl
    | step _ c _ n' ht hc hr =>
      rcases RA.avoid_or_cut t hr with h1 | ⟨m, hm, h2⟩
      · exact .inr ⟨c, hc, n', h1⟩
      · exact ih m (by omega) h2

/-- number of type names below `N` not yet in progress -/
def free (N : Nat) (P : List Nat) : Nat := ((List.range N).filter (fun x => x ∉ P)).length

theorem filter_ne_length_lt (t : Nat) : ∀ (L : List Nat), t ∈ L →
    (L.filter (fun x => x ≠ t)).length < L.length
  | [], h => by cases h
  | y :: ys, h => by
    by_cases hy : y = t
    · subst hy
      simp only [List.filter, ne_eq, not_true_eq_false, decide_false, List.length_cons]
      exact Nat.lt_succ_of_le (List.length_filter_le _ _)
    · have hmem : t ∈ ys := by
        rcases List.mem_cons.mp h with h | h
        · exact absurd h.symm hy
        · exact h
      have := filter_ne_length_lt t ys hmem
      simp only [List.filter, ne_eq, hy, not_false_eq_true, decide_true, List.length_cons]
      simp only [ne_eq] at this
      omega

theorem free_cons_lt (N : Nat) (P : List Nat) (t : Nat) (ht : t < N) (hP : t ∉ P) :
    free N (t :: P) < free N P := by
  unfold free
  have hmem : t ∈ (List.range N).filter (fun x => x ∉ P) := by simp [ht, hP]
  have : (List.range N).filter (fun x => x ∉ t :: P) =
      ((List.range N).filter (fun x => x ∉ P)).filter (fun x => x ≠ t) := by
    rw [List.filter_filter]; congr; funext x; simp
  rw [this]
  exact filter_ne_length_lt t _ hmem

theorem free_nil (N : Nat) : free N [] = N := by
  simp only [free, List.not_mem_nil, not_false_eq_true, decide_true]
  rw [List.filter_eq_self.mpr (by simp)]; simp

/-- the specification: everything reachable from `t` is, by itself, safe -/
def SpecSafe (defs : List Def) (t : Nat) : Prop := ∀ u, Reach defs t u → ownOk defs u = true

/-- every cached answer is the specification's answer -/
def MemoOK (defs : List Def) (memo : Memo) : Prop := ∀ p ∈ memo, (p.2 = true ↔ SpecSafe defs p.1)

/-- references stay inside the definition list (the Conjure compiler rejects dangling references) -/
def Valid (defs : List Def) : Prop := ∀ t c, c ∈ kids defs t → c < defs.length

theorem lookup_mem {memo : Memo} {t : Nat} {b : Bool} (h : memo.lookup t = some b) : (t, b) ∈ memo := by
  induction memo with
  | nil => simp [List.lookup] at h
  | cons p ps ih =>
    obtain ⟨k, v⟩ := p
    simp only [List.lookup] at h
    split at h
    · rename_i heq
      simp only [beq_iff_eq] at heq
      cases h; subst heq; exact List.mem_cons_self
    · exact List.mem_cons_of_mem _ (ih h)

/-- soundness of a (possibly nested) evaluation: a `true` answer means every node on every path that
    avoids the in-progress set is safe -/
theorem evalRef_sound (defs : List Def) (memo : Memo) (hv : Valid defs) (hm : MemoOK defs memo) :
    ∀ fuel P t, t < defs.length → free defs.length P ≤ fuel → evalRef defs memo fuel P t = true →
      ∀ u n, RA defs P t u n → ownOk defs u = true := by
  intro fuel
  induction fuel with
  | zero =>
    intro P t ht hf _ u n hr
    have := free_cons_lt defs.length P t ht hr.head_notin
    omega
  | succ fuel ih =>
    intro P t ht hf he u n hr
    have hP := hr.head_notin
    unfold evalRef at he
    cases hl : memo.lookup t with
    | some b =>
      rw [hl] at he
      simp only at he
      subst he
      exact (hm _ (lookup_mem hl)).mp rfl u hr.toReach
    | none =>
      rw [hl] at he
      have hc : P.contains t = false := by simpa using hP
      simp only [hc, Bool.false_eq_true, if_false, Bool.and_eq_true, List.all_eq_true] at he
      rcases RA.last_occurrence n hr with h | ⟨c, hcm, m, hr'⟩
      · subst h; exact he.1
      · have hlt := free_cons_lt defs.length P t ht hP
        exact ih (t :: P) c (hv t c hcm) (by omega) (he.2 c hcm) u m hr'

/-- completeness: when everything reachable is safe, every evaluation answers `true` -/
theorem evalRef_complete (defs : List Def) (memo : Memo) (hm : MemoOK defs memo) :
    ∀ fuel P t, SpecSafe defs t → evalRef defs memo fuel P t = true := by
  intro fuel
  induction fuel with
  | zero => intro P t _; rfl
  | succ fuel ih =>
    intro P t hs
    unfold evalRef
    cases hl : memo.lookup t with
    | some b =>
      simp only
      exact (hm _ (lookup_mem hl)).mpr hs
    | none =>
      simp only
      split
      · rfl
      · simp only [Bool.and_eq_true, List.all_eq_true]
        refine ⟨hs t (.refl t), ?_⟩
        intro c hc
        exact ih (t :: P) c (fun u hu => hs u (.step t c u hc hu))

/-- an outermost query returns the specification's answer and keeps the cache correct -/
theorem queryRef_spec (defs : List Def) (memo : Memo) (hv : Valid defs) (hm : MemoOK defs memo)
    (t : Nat) (ht : t < defs.length) :
    MemoOK defs (queryRef defs memo t).1 ∧ ((queryRef defs memo t).2 = true ↔ SpecSafe defs t) := by
  unfold queryRef
  cases hl : memo.lookup t with
  | some b => exact ⟨hm, hm _ (lookup_mem hl)⟩
  | none =>
    simp only
    have hiff : evalRef defs memo (defs.length + 1) [] t = true ↔ SpecSafe defs t := by
      constructor
      · intro he u hu
        obtain ⟨n, hn⟩ := hu.toRA
        exact evalRef_sound defs memo hv hm _ [] t ht (by rw [free_nil]; omega) he u n hn
      · exact evalRef_complete defs memo hm _ [] t
    refine ⟨?_, hiff⟩
    intro p hp
    rcases List.mem_cons.mp hp with e | e
    · subst e; exact hiff
    · exact hm p e

theorem queryRefs_spec (defs : List Def) (hv : Valid defs) :
    ∀ (ts : List Nat) (memo : Memo), MemoOK defs memo → (∀ t ∈ ts, t < defs.length) →
      MemoOK defs (queryRefs defs memo ts).1 ∧
      ((queryRefs defs memo ts).2 = true ↔ ∀ t ∈ ts, SpecSafe defs t) := by
  intro ts
  induction ts with
  | nil => intro memo hm _; simp [queryRefs, hm]
  | cons t ts ih =>
    intro memo hm hr
    have h1 := queryRef_spec defs memo hv hm t (hr t List.mem_cons_self)
    have h2 := ih (queryRef defs memo t).1 h1.1 (fun x hx => hr x (List.mem_cons_of_mem _ hx))
    simp only [queryRefs]
    refine ⟨h2.1, ?_⟩
    simp only [Bool.and_eq_true, h1.2, h2.2, List.mem_cons, forall_eq_or_imp]

end ConjureVerif.LogSafety
