import ConjureVerif.Model.Uri
namespace ConjureVerif.Uri

theorem unhexD_hexDigit (n : Nat) (h : n < 16) : unhexD (hexDigit n) = some n := by
  unfold unhexD hexDigit
  split <;> (split <;> try (split <;> try split)) <;> simp_all <;> omega

/-- percent-decoding inverts percent-encoding for every byte string, for any set that contains `%` -/
theorem decode_encode (tbl : List Nat) (hpct : 37 ∈ tbl) (bs : List Nat)
    (hb : ∀ b ∈ bs, b < 256) : decode (encode tbl bs) = bs := by
  induction bs with
  | nil => simp [encode, decode]
  | cons b bs ih =>
    have hb' : ∀ b ∈ bs, b < 256 := fun x hx => hb x (List.mem_cons_of_mem _ hx)
    have hlt : b < 256 := hb b (List.mem_cons_self)
    unfold encode
    split
    · rw [decode, unhexD_hexDigit _ (by omega), unhexD_hexDigit _ (by omega)]
      simp [ih hb']; omega
    · rename_i hns
      have hne : b ≠ 37 := by intro h; subst h; simp [inSet] at hns; exact hns hpct
      rw [decode]
      · simp [ih hb']
      · intro h l rest heq; exact absurd heq hne

def isUpperHex (b : Nat) : Bool := (48 ≤ b && b ≤ 57) || (65 ≤ b && b ≤ 70)

theorem hexDigit_isUpperHex (n : Nat) (h : n < 16) : isUpperHex (hexDigit n) = true := by
  unfold isUpperHex hexDigit; split <;> simp <;> omega

/-- every output byte is an unescaped input byte outside the set, a `%`, or an upper-case hex digit -/
theorem mem_encode (tbl : List Nat) (bs : List Nat) (hb : ∀ b ∈ bs, b < 256) (x : Nat)
    (hx : x ∈ encode tbl bs) : (x ∈ bs ∧ inSet tbl x = false) ∨ x = 37 ∨ isUpperHex x = true := by
  induction bs with
  | nil => simp [encode] at hx
  | cons b bs ih =>
    have hb' : ∀ b ∈ bs, b < 256 := fun x hx => hb x (List.mem_cons_of_mem _ hx)
    have hlt : b < 256 := hb b (List.mem_cons_self)
    unfold encode at hx
    split at hx
    · simp only [List.mem_cons] at hx
      rcases hx with h | h | h | h
      · exact .inr (.inl h)
      · exact .inr (.inr (h ▸ hexDigit_isUpperHex _ (by omega)))
      · exact .inr (.inr (h ▸ hexDigit_isUpperHex _ (by omega)))
      · rcases ih hb' h with ⟨h1, h2⟩ | h | h
        · exact .inl ⟨List.mem_cons_of_mem _ h1, h2⟩
        · exact .inr (.inl h)
        · exact .inr (.inr h)
    · rename_i hns
      simp only [List.mem_cons] at hx
      rcases hx with h | h
      · subst h; exact .inl ⟨List.mem_cons_self, by simpa using hns⟩
      · rcases ih hb' h with ⟨h1, h2⟩ | h | h
        · exact .inl ⟨List.mem_cons_of_mem _ h1, h2⟩
        · exact .inr (.inl h)
        · exact .inr (.inr h)

/-- a byte of the set that is neither `%` nor a hex digit never occurs in encoded text -/
theorem not_mem_encode (tbl : List Nat) (bs : List Nat) (hb : ∀ b ∈ bs, b < 256) (d : Nat)
    (hd : inSet tbl d = true) (h37 : d ≠ 37) (hh : isUpperHex d = false) : d ∉ encode tbl bs := by
  intro hx
  rcases mem_encode tbl bs hb d hx with ⟨_, h⟩ | h | h
  · rw [hd] at h; cases h
  · exact h37 h
  · rw [hh] at h; cases h

/-! ### splitting -/

theorem splitOn_ne_nil (d : Nat) (s : List Nat) : splitOn d s ≠ [] := by
  cases s with
  | nil => simp [splitOn]
  | cons b bs =>
    unfold splitOn; split
    · simp
    · split <;> simp

theorem splitOn_not_mem (d : Nat) (s : List Nat) (h : d ∉ s) : splitOn d s = [s] := by
  induction s with
  | nil => simp [splitOn]
  | cons b bs ih =>
    have hb : b ≠ d := fun e => h (e ▸ List.mem_cons_self)
    have := ih (fun hm => h (List.mem_cons_of_mem _ hm))
    simp [splitOn, hb, this]

theorem splitOn_append (d : Nat) (s r : List Nat) (h : d ∉ s) :
    splitOn d (s ++ d :: r) = s :: splitOn d r := by
  induction s with
  | nil => simp [splitOn]
  | cons b bs ih =>
    have hb : b ≠ d := fun e => h (e ▸ List.mem_cons_self)
    have := ih (fun hm => h (List.mem_cons_of_mem _ hm))
    simp [splitOn, hb, this]

theorem splitOn_joinSegs (segs : List (List Nat)) (h : ∀ s ∈ segs, 47 ∉ s) :
    splitOn 47 (joinSegs segs) = [] :: segs ∨ (segs = [] ∧ splitOn 47 (joinSegs segs) = [[]]) := by
  induction segs with
  | nil => right; simp [joinSegs, splitOn]
  | cons s ss ih =>
    left
    have hs : 47 ∉ s := h s List.mem_cons_self
    have hss : ∀ s ∈ ss, 47 ∉ s := fun x hx => h x (List.mem_cons_of_mem _ hx)
    have hj : joinSegs (s :: ss) = 47 :: (s ++ joinSegs ss) := by simp [joinSegs]
    rw [hj]
    cases ss with
    | nil =>
      simp [joinSegs, splitOn, splitOn_not_mem 47 s hs]
    | cons t ts =>
      rcases ih hss with h1 | ⟨h1, _⟩
      · have hj2 : joinSegs (t :: ts) = 47 :: (t ++ joinSegs ts) := by simp [joinSegs]
        have : splitOn 47 (s ++ joinSegs (t :: ts)) = s :: splitOn 47 (t ++ joinSegs ts) := by
          rw [hj2]; exact splitOn_append 47 s _ hs
        rw [hj2] at h1
        simp only [splitOn, if_true] at h1
        simp only [splitOn, if_true, this]
        simp at h1
        simp [h1]
      · cases h1

theorem tail_splitOn_joinSegs (segs : List (List Nat)) (h : ∀ s ∈ segs, 47 ∉ s) :
    (splitOn 47 (joinSegs segs)).tail = segs := by
  rcases splitOn_joinSegs segs h with h1 | ⟨h1, h2⟩
  · simp [h1]
  · subst h1; simp [joinSegs, splitOn]

theorem splitFirst_not_mem (d : Nat) (a : List Nat) (h : d ∉ a) : splitFirst d a = (a, none) := by
  induction a with
  | nil => simp [splitFirst]
  | cons b bs ih =>
    have hb : b ≠ d := fun e => h (e ▸ List.mem_cons_self)
    have := ih (fun hm => h (List.mem_cons_of_mem _ hm))
    simp [splitFirst, hb, this]

theorem splitFirst_append (d : Nat) (a r : List Nat) (h : d ∉ a) :
    splitFirst d (a ++ d :: r) = (a, some r) := by
  induction a with
  | nil => simp [splitFirst]
  | cons b bs ih =>
    have hb : b ≠ d := fun e => h (e ▸ List.mem_cons_self)
    have := ih (fun hm => h (List.mem_cons_of_mem _ hm))
    simp [splitFirst, hb, this]

theorem plusToSpace_id (bs : List Nat) (h : 43 ∉ bs) : plusToSpace bs = bs := by
  induction bs with
  | nil => simp [plusToSpace]
  | cons b bs ih =>
    have hb : b ≠ 43 := fun e => h (e ▸ List.mem_cons_self)
    have := ih (fun hm => h (List.mem_cons_of_mem _ hm))
    simp [plusToSpace] at this ⊢
    exact ⟨fun e => absurd e hb, this⟩

end ConjureVerif.Uri
