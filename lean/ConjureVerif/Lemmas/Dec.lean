import ConjureVerif.Model.Dec
namespace ConjureVerif.Dec

theorem digitsVal_append (a : List Nat) (c : Nat) :
    digitsVal (a ++ [c]) = digitsVal a * 10 + (c - 48) := by
  simp [digitsVal, List.foldl_append]

theorem showNat_ne_nil (n : Nat) : showNat n ≠ [] := by
  unfold showNat; split <;> simp

theorem showNat_all_digit (n : Nat) : (showNat n).all isDigit = true := by
  induction n using Nat.strongRecOn with
  | _ n ih =>
    unfold showNat
    split
    · simp [isDigit]; omega
    · simp only [List.all_append, ih (n / 10) (by omega), Bool.true_and]
      simp [isDigit]; omega

theorem digitsVal_showNat (n : Nat) : digitsVal (showNat n) = n := by
  induction n using Nat.strongRecOn with
  | _ n ih =>
    unfold showNat
    split
    · simp [digitsVal]
    · rw [digitsVal_append, ih (n / 10) (by omega)]; omega

theorem parseNatDigits_showNat (n : Nat) : parseNatDigits (showNat n) = some n := by
  unfold parseNatDigits
  have h1 := showNat_ne_nil n
  have h2 := showNat_all_digit n
  have h3 := digitsVal_showNat n
  cases hs : showNat n with
  | nil => exact absurd hs h1
  | cons a as => rw [hs] at h2 h3; simp [h2, h3]

/-- first byte of `showNat n` is a digit, hence neither `+` nor `-` -/
theorem showNat_head (n : Nat) : ∃ d ds, showNat n = d :: ds ∧ 48 ≤ d ∧ d ≤ 57 := by
  have h1 := showNat_ne_nil n
  have h2 := showNat_all_digit n
  cases hs : showNat n with
  | nil => exact absurd hs h1
  | cons a as =>
    rw [hs] at h2
    simp [isDigit] at h2
    exact ⟨a, as, rfl, h2.1.1, h2.1.2⟩

theorem parseRust_showNat (n : Nat) : parseRust (showNat n) = some (n : Int) := by
  obtain ⟨d, ds, hs, h1, h2⟩ := showNat_head n
  have := parseNatDigits_showNat n
  rw [hs] at this ⊢
  unfold parseRust
  split
  · rename_i heq; simp at heq; omega
  · rename_i heq; simp at heq; omega
  · simp [this]

theorem parseRust_showInt (v : Int) : parseRust (showInt v) = some v := by
  unfold showInt
  split
  · simp [parseRust, parseNatDigits_showNat]; omega
  · rw [parseRust_showNat]; congr 1; omega

/-- `showNat` has no leading zero unless the number is zero -/
theorem showNat_zero : showNat 0 = [48] := by unfold showNat; simp

theorem showNat_head_nonzero (n : Nat) (hn : 0 < n) :
    ∃ d ds, showNat n = d :: ds ∧ 49 ≤ d ∧ d ≤ 57 := by
  induction n using Nat.strongRecOn with
  | _ n ih =>
    unfold showNat
    split
    · exact ⟨48 + n, [], rfl, by omega, by omega⟩
    · obtain ⟨d, ds, hs, h1, h2⟩ := ih (n / 10) (by omega) (by omega)
      exact ⟨d, ds ++ [48 + n % 10], by simp [hs], h1, h2⟩

theorem parseJson_nonzero_digits (d : Nat) (ds : List Nat) (h1 : 49 ≤ d) (h2 : d ≤ 57) (n : Nat)
    (hp : parseNatDigits (d :: ds) = some n) :
    parseJson (d :: ds) = some (n : Int) ∧ parseJson (45 :: d :: ds) = some (-(n : Int)) := by
  constructor
  · unfold parseJson
    split
    · rename_i heq; simp at heq; omega
    · split
      · rename_i heq; simp at heq; omega
      · rename_i heq; simp at heq; omega
      · simp [hp]
  · unfold parseJson
    split
    · rename_i heq; simp at heq
      obtain ⟨_, rfl⟩ := heq
      split
      · rename_i heq; simp at heq; omega
      · simp [hp]
    · rename_i hne; exact absurd rfl (hne _)

theorem parseJson_showInt (v : Int) : parseJson (showInt v) = some v := by
  unfold showInt
  by_cases hz : v = 0
  · subst hz; simp [showNat_zero, parseJson]
  · have hpos : 0 < v.natAbs := by omega
    obtain ⟨d, ds, hs, h1, h2⟩ := showNat_head_nonzero v.natAbs hpos
    have hp := parseNatDigits_showNat v.natAbs
    rw [hs] at hp
    have := parseJson_nonzero_digits d ds h1 h2 _ hp
    split
    · rw [hs, this.2]; congr 1; omega
    · rw [hs, this.1]; congr 1; omega

end ConjureVerif.Dec
