import ConjureVerif.Lemmas.WrapInject
set_option linter.unusedSimpArgs false
namespace ConjureVerif.Wrap
open ConjureVerif.Data

theorem side_server : (Side.server == Side.server) = true := by decide
theorem side_client : (Side.client == Side.server) = false := by decide

mutual
  /-- the server wrapper rejects the document with the extra member, naming it -/
  theorem srv (fmt : Fmt) : ∀ {t : Ty} {d d' : Doc} {k : List Nat}, Inject t d d' k →
      ∀ v, de fmt .server t d = .ok v → de fmt .server t d' = .error (.unknownField k)
    | _, _, _, _, .here fs ms ms' k x hk hi, v, h => by
      rw [de] at h ⊢
      simp only [side_server] at h ⊢
      cases hm : deM fmt .server true fs ms [] with
      | error e => simp [hm] at h
      | ok r => rw [deM_insert_strict fmt .server fs k hk hi [] r hm]
    | _, _, _, _, .option t d d' k hi, v, h => by
      have hn := hi.not_null
      rw [de] at h
      · cases hd : de fmt .server t d with
        | error e => simp [hd] at h
        | ok w =>
          rw [de]
          · simp [srv fmt hi w hd]
          · intro x; exact hn.2 x
      · intro x; exact hn.1 x
    | _, _, _, _, .newtype t d d' k hi, v, h => by
      rw [de] at h
      cases hd : de fmt .server t d with
      | error e => simp [hd] at h
      | ok w => rw [de]; simp [srv fmt hi w hd]
    | _, _, _, _, .seq t xs xs' k hi, v, h => by
      rw [de] at h
      cases hd : deL fmt .server t xs with
      | error e => simp [hd] at h
      | ok w => rw [de]; simp [srvL fmt hi w hd]
    | _, _, _, _, .tuple ts xs xs' k hi, v, h => by
      rw [de] at h
      cases hd : deT fmt .server ts xs with
      | error e => simp [hd] at h
      | ok w => rw [de]; simp [srvT fmt hi w hd]
    | _, _, _, _, .tupleStruct ts xs xs' k hi, v, h => by
      rw [de] at h
      cases hd : deT fmt .server ts xs with
      | error e => simp [hd] at h
      | ok w => rw [de]; simp [srvT fmt hi w hd]
    | _, _, _, _, .mapValue kt vt ms ms' k hi, v, h => by
      rw [de] at h
      cases hd : deE fmt .server kt vt ms with
      | error e => simp [hd] at h
      | ok w => rw [de]; simp [srvMV fmt kt hi w hd]
    | _, _, _, _, .structField fs ms ms' k hi, v, h => by
      rw [de] at h ⊢
      simp only [side_server] at h ⊢
      cases hm : deM fmt .server true fs ms [] with
      | error e => simp [hm] at h
      | ok r => rw [srvF fmt hi _ [] r hm]
    | _, _, _, _, .variantPayload vs s i kind pty p p' k hf hk hi, v, h => by
      rcases hk with rfl | rfl
      · rw [de] at h ⊢
        simp only [hf] at h ⊢
        cases hd : de fmt .server pty p with
        | error e => simp [hd] at h
        | ok w => simp [srv fmt hi w hd]
      · rw [de] at h ⊢
        simp only [hf] at h ⊢
        cases hd : de fmt .server pty p with
        | error e => simp [hd] at h
        | ok w => simp [srv fmt hi w hd]
    | _, _, _, _, .structVariantField vs s i fs ms ms' k hf hi, v, h => by
      rw [de] at h ⊢
      simp only [hf] at h ⊢
      cases hm : deM fmt .server false fs ms [] with
      | error e => simp [hm] at h
      | ok r => rw [srvF fmt hi _ [] r hm]
  theorem srvL (fmt : Fmt) : ∀ {t : Ty} {xs xs' : Docs} {k : List Nat}, InjectL t xs xs' k →
      ∀ vs, deL fmt .server t xs = .ok vs → deL fmt .server t xs' = .error (.unknownField k)
    | _, _, _, _, .here t x x' xs k hi, vs, h => by
      rw [deL] at h ⊢
      cases hd : de fmt .server t x with
      | error e => simp [hd] at h
      | ok w => simp [srv fmt hi w hd]
    | _, _, _, _, .there t x xs xs' k hi, vs, h => by
      rw [deL] at h ⊢
      cases hd : de fmt .server t x with
      | error e => simp [hd] at h
      | ok w =>
        simp only [hd] at h ⊢
        cases hr : deL fmt .server t xs with
        | error e => simp [hr] at h
        | ok ws => simp [srvL fmt hi ws hr]
  theorem srvT (fmt : Fmt) : ∀ {ts : Tys} {xs xs' : Docs} {k : List Nat}, InjectT ts xs xs' k →
      ∀ vs, deT fmt .server ts xs = .ok vs → deT fmt .server ts xs' = .error (.unknownField k)
    | _, _, _, _, .here t ts x x' xs k hi, vs, h => by
      rw [deT] at h ⊢
      cases hd : de fmt .server t x with
      | error e => simp [hd] at h
      | ok w => simp [srv fmt hi w hd]
    | _, _, _, _, .there t ts x xs xs' k hi, vs, h => by
      rw [deT] at h ⊢
      cases hd : de fmt .server t x with
      | error e => simp [hd] at h
      | ok w =>
        simp only [hd] at h ⊢
        cases hr : deT fmt .server ts xs with
        | error e => simp [hr] at h
        | ok ws => simp [srvT fmt hi ws hr]
  theorem srvMV (fmt : Fmt) (kt : Ty) : ∀ {vt : Ty} {ms ms' : Members} {k : List Nat}, InjectMV vt ms ms' k →
      ∀ es, deE fmt .server kt vt ms = .ok es → deE fmt .server kt vt ms' = .error (.unknownField k)
    | _, _, _, _, .here vt key x x' ms k hi, es, h => by
      rw [deE] at h ⊢
      cases hk : deKey kt key with
      | error e => simp [hk] at h
      | ok kv =>
        simp only [hk] at h ⊢
        cases hd : de fmt .server vt x with
        | error e => simp [hd] at h
        | ok w => simp [srv fmt hi w hd]
    | _, _, _, _, .there vt key x ms ms' k hi, es, h => by
      rw [deE] at h ⊢
      cases hk : deKey kt key with
      | error e => simp [hk] at h
      | ok kv =>
        simp only [hk] at h ⊢
        cases hd : de fmt .server vt x with
        | error e => simp [hd] at h
        | ok w =>
          simp only [hd] at h ⊢
          cases hr : deE fmt .server kt vt ms with
          | error e => simp [hr] at h
          | ok ws => simp [srvMV fmt kt hi ws hr]
  theorem srvF (fmt : Fmt) : ∀ {fs : Fields} {ms ms' : Members} {k : List Nat}, InjectF fs ms ms' k →
      ∀ (strict : Bool) (acc r : List (Nat × Val)), deM fmt .server strict fs ms acc = .ok r →
        deM fmt .server strict fs ms' acc = .error (.unknownField k)
    | _, _, _, _, .here fs n i t x x' ms k hf hi, strict, acc, r, h => by
      rw [deM] at h ⊢
      simp only [hf] at h ⊢
      split at h
      · cases h
      · rename_i hdup
        simp only [hdup, if_false]
        cases hd : de fmt .server t x with
        | error e => simp [hd] at h
        | ok w => simp [srv fmt hi w hd]
    | _, _, _, _, .there fs key x ms ms' k hi, strict, acc, r, h => by
      cases key with
      | flt b => rw [deM] at h; cases h
      | text n =>
        rw [deM] at h ⊢
        cases hf : fieldIndex fs n 0 with
        | none =>
          simp only [hf] at h ⊢
          cases strict with
          | true => simp at h
          | false =>
            simp only [Bool.false_eq_true, if_false] at h ⊢
            exact srvF fmt hi false acc r h
        | some p =>
          obtain ⟨i, t⟩ := p
          simp only [hf] at h ⊢
          split at h
          · cases h
          · rename_i hdup
            simp only [hdup, if_false]
            cases hd : de fmt .server t x with
            | error e => simp [hd] at h
            | ok w =>
              simp only [hd] at h ⊢
              exact srvF fmt hi strict _ r h
end

mutual
  /-- the client wrapper reads the document with the extra member exactly as it reads the original -/
  theorem cli (fmt : Fmt) : ∀ {t : Ty} {d d' : Doc} {k : List Nat}, Inject t d d' k →
      de fmt .client t d' = de fmt .client t d
    | _, _, _, _, .here fs ms ms' k x hk hi => by
      rw [de, de]
      simp only [side_client]
      rw [deM_insert_lenient fmt .client fs k hk hi []]
    | _, _, _, _, .option t d d' k hi => by
      have hn := hi.not_null
      rw [de, de]
      · rw [cli fmt hi]
      · intro x; exact hn.1 x
      · intro x; exact hn.2 x
    | _, _, _, _, .newtype t d d' k hi => by rw [de, de, cli fmt hi]
    | _, _, _, _, .seq t xs xs' k hi => by rw [de, de, cliL fmt hi]
    | _, _, _, _, .tuple ts xs xs' k hi => by rw [de, de, cliT fmt hi]
    | _, _, _, _, .tupleStruct ts xs xs' k hi => by rw [de, de, cliT fmt hi]
    | _, _, _, _, .mapValue kt vt ms ms' k hi => by rw [de, de, cliMV fmt kt hi]
    | _, _, _, _, .structField fs ms ms' k hi => by rw [de, de, cliF fmt hi]
    | _, _, _, _, .variantPayload vs s i kind pty p p' k hf hk hi => by
      rcases hk with rfl | rfl
      · rw [de, de]; simp only [hf]; rw [cli fmt hi]
      · rw [de, de]; simp only [hf]; rw [cli fmt hi]
    | _, _, _, _, .structVariantField vs s i fs ms ms' k hf hi => by
      rw [de, de]; simp only [hf]; rw [cliF fmt hi]
  theorem cliL (fmt : Fmt) : ∀ {t : Ty} {xs xs' : Docs} {k : List Nat}, InjectL t xs xs' k →
      deL fmt .client t xs' = deL fmt .client t xs
    | _, _, _, _, .here t x x' xs k hi => by rw [deL, deL, cli fmt hi]
    | _, _, _, _, .there t x xs xs' k hi => by rw [deL, deL, cliL fmt hi]
  theorem cliT (fmt : Fmt) : ∀ {ts : Tys} {xs xs' : Docs} {k : List Nat}, InjectT ts xs xs' k →
      deT fmt .client ts xs' = deT fmt .client ts xs
    | _, _, _, _, .here t ts x x' xs k hi => by rw [deT, deT, cli fmt hi]
    | _, _, _, _, .there t ts x xs xs' k hi => by rw [deT, deT, cliT fmt hi]
  theorem cliMV (fmt : Fmt) (kt : Ty) : ∀ {vt : Ty} {ms ms' : Members} {k : List Nat}, InjectMV vt ms ms' k →
      deE fmt .client kt vt ms' = deE fmt .client kt vt ms
    | _, _, _, _, .here vt key x x' ms k hi => by rw [deE, deE, cli fmt hi]
    | _, _, _, _, .there vt key x ms ms' k hi => by rw [deE, deE, cliMV fmt kt hi]
  theorem cliF (fmt : Fmt) : ∀ {fs : Fields} {ms ms' : Members} {k : List Nat}, InjectF fs ms ms' k →
      ∀ (strict : Bool) (acc : List (Nat × Val)),
        deM fmt .client strict fs ms' acc = deM fmt .client strict fs ms acc
    | _, _, _, _, .here fs n i t x x' ms k hf hi, strict, acc => by
      rw [deM, deM]; simp only [hf]; rw [cli fmt hi]
    | _, _, _, _, .there fs key x ms ms' k hi, strict, acc => by
      cases key with
      | flt b => rw [deM, deM]
      | text n =>
        rw [deM, deM]
        cases hf : fieldIndex fs n 0 with
        | none =>
          simp only
          cases strict with
          | true => rfl
          | false => simp only [Bool.false_eq_true, if_false]; exact cliF fmt hi false acc
        | some p =>
          obtain ⟨i, t⟩ := p
          simp only
          split
          · rfl
          · cases hd : de fmt .client t x with
            | error e => rfl
            | ok w => simp only; exact cliF fmt hi strict _
end

end ConjureVerif.Wrap
