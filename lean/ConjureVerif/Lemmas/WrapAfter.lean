import ConjureVerif.Lemmas.WrapUnknown
set_option linter.unusedSimpArgs false
namespace ConjureVerif.Wrap
open ConjureVerif.Data

/-- how the outcome for a document relates to the outcome for the same document with one more undeclared member `k`
somewhere below a struct: the longer document is rejected naming `k`, or both are rejected with the same error (one
that is met before `k` is) -/
def After {α : Type} (k : List Nat) (r r' : Except DeErr α) : Prop :=
  r' = .error (.unknownField k) ∨ ∃ e, r = .error e ∧ r' = .error e

theorem After.through {α β : Type} {k : List Nat} {r r' : Except DeErr α} (g : Except DeErr α → Except DeErr β)
    (hg : ∀ e, g (.error e) = .error e) (h : After k r r') : After k (g r) (g r') := by
  rcases h with h | ⟨e, h1, h2⟩
  · exact Or.inl (by rw [h, hg])
  · exact Or.inr ⟨e, by rw [h1, hg], by rw [h2, hg]⟩

theorem After.map {α β : Type} {k : List Nat} {r r' : Except DeErr α} (f : α → β) (h : After k r r') :
    After k (r.map f) (r'.map f) := h.through (fun r => r.map f) (fun _ => rfl)

theorem After.same {α : Type} (k : List Nat) (e : DeErr) : After (α := α) k (.error e) (.error e) := Or.inr ⟨e, rfl, rfl⟩

theorem After.of_ok {α : Type} {k : List Nat} {r r' : Except DeErr α} {v : α} (h : After k r r') (hv : r = .ok v) :
    r' = .error (.unknownField k) := by
  rcases h with h | ⟨e, h1, -⟩
  · exact h
  · rw [hv] at h1; cases h1

/-- the strict struct reader on an object with one more, undeclared member -/
theorem deM_insert_after (fmt : Fmt) (side : Side) (fs : Fields) (k : List Nat) (hk : k ∉ fs.names) :
    ∀ {ms ms' : Members} {x : Doc}, InsertM ms ms' k x → ∀ (acc : List (Nat × Val)),
      After k (deM fmt side true fs ms acc) (deM fmt side true fs ms' acc)
  | _, _, _, .here ms k x, acc => by
    left; rw [deM, fieldIndex_none fs k 0 hk]; simp
  | _, _, _, .there k0 v0 ms ms' k x hi, acc => by
    cases k0 with
    | flt b => rw [deM, deM]; exact After.same _ _
    | text n =>
      rw [deM, deM]
      cases hf : fieldIndex fs n 0 with
      | none => simp only [if_true]; exact After.same _ _
      | some p =>
        obtain ⟨i, t⟩ := p
        simp only
        split
        · exact After.same _ _
        · cases hd : de fmt side t v0 with
          | error e => exact After.same _ _
          | ok v => simp only; exact deM_insert_after fmt side fs k hk hi _

mutual
  /-- **any outcome**: whatever the server makes of a document, with one more undeclared member below a struct it
  rejects the document naming that member, or rejects both with the same, earlier error -/
  theorem srvA (fmt : Fmt) : ∀ {t : Ty} {d d' : Doc} {k : List Nat}, Inject t d d' k →
      After k (de fmt .server t d) (de fmt .server t d')
    | _, _, _, _, .here fs ms ms' k x hk hi => by
      rw [de, de]
      simp only [side_server]
      exact (deM_insert_after fmt .server fs k hk hi []).through
        (fun r => match r with | .ok found => (assemble fs 0 found).map Val.struct | .error e => .error e) (fun _ => rfl)
    | _, _, _, _, .option t d d' k hi => by
      have hn := hi.not_null
      rw [de, de]
      · exact (srvA fmt hi).map _
      · intro x; exact hn.2 x
      · intro x; exact hn.1 x
    | _, _, _, _, .newtype t d d' k hi => by rw [de, de]; exact (srvA fmt hi).map _
    | _, _, _, _, .seq t xs xs' k hi => by rw [de, de]; exact (srvAL fmt hi).map _
    | _, _, _, _, .tuple ts xs xs' k hi => by rw [de, de]; exact (srvAT fmt hi).map _
    | _, _, _, _, .tupleStruct ts xs xs' k hi => by rw [de, de]; exact (srvAT fmt hi).map _
    | _, _, _, _, .mapValue kt vt ms ms' k hi => by rw [de, de]; exact (srvAMV fmt kt hi).map _
    | _, _, _, _, .structField fs ms ms' k hi => by
      rw [de, de]
      simp only [side_server]
      exact (srvAF fmt hi true []).through
        (fun r => match r with | .ok found => (assemble fs 0 found).map Val.struct | .error e => .error e) (fun _ => rfl)
    | _, _, _, _, .variantPayload vs s i kind pty p p' k hf hk hi => by
      rcases hk with rfl | rfl
      · rw [de, de]; simp only [hf]; exact (srvA fmt hi).map _
      · rw [de, de]; simp only [hf]; exact (srvA fmt hi).map _
    | _, _, _, _, .structVariantField vs s i fs ms ms' k hf hi => by
      rw [de, de]; simp only [hf]
      exact (srvAF fmt hi false []).through
        (fun r => match r with | .ok found => (assemble fs 0 found).map (fun f => Val.variant i (.struct f)) | .error e => .error e) (fun _ => rfl)
  theorem srvAL (fmt : Fmt) : ∀ {t : Ty} {xs xs' : Docs} {k : List Nat}, InjectL t xs xs' k →
      After k (deL fmt .server t xs) (deL fmt .server t xs')
    | _, _, _, _, .here t x x' xs k hi => by
      rw [deL, deL]
      exact (srvA fmt hi).through
        (fun r => match r with | .ok v => (deL fmt .server t xs).map (Vals.cons v) | .error e => .error e) (fun _ => rfl)
    | _, _, _, _, .there t x xs xs' k hi => by
      rw [deL, deL]
      cases hd : de fmt .server t x with
      | error e => exact After.same _ _
      | ok w => simp only; exact (srvAL fmt hi).map _
  theorem srvAT (fmt : Fmt) : ∀ {ts : Tys} {xs xs' : Docs} {k : List Nat}, InjectT ts xs xs' k →
      After k (deT fmt .server ts xs) (deT fmt .server ts xs')
    | _, _, _, _, .here t ts x x' xs k hi => by
      rw [deT, deT]
      exact (srvA fmt hi).through
        (fun r => match r with | .ok v => (deT fmt .server ts xs).map (Vals.cons v) | .error e => .error e) (fun _ => rfl)
    | _, _, _, _, .there t ts x xs xs' k hi => by
      rw [deT, deT]
      cases hd : de fmt .server t x with
      | error e => exact After.same _ _
      | ok w => simp only; exact (srvAT fmt hi).map _
  theorem srvAMV (fmt : Fmt) (kt : Ty) : ∀ {vt : Ty} {ms ms' : Members} {k : List Nat}, InjectMV vt ms ms' k →
      After k (deE fmt .server kt vt ms) (deE fmt .server kt vt ms')
    | _, _, _, _, .here vt key x x' ms k hi => by
      rw [deE, deE]
      cases hk : deKey kt key with
      | error e => exact After.same _ _
      | ok kv =>
        simp only
        exact (srvA fmt hi).through
          (fun r => match r with | .ok v => (deE fmt .server kt vt ms).map (Entries.cons kv v) | .error e => .error e) (fun _ => rfl)
    | _, _, _, _, .there vt key x ms ms' k hi => by
      rw [deE, deE]
      cases hk : deKey kt key with
      | error e => exact After.same _ _
      | ok kv =>
        simp only
        cases hd : de fmt .server vt x with
        | error e => exact After.same _ _
        | ok w => simp only; exact (srvAMV fmt kt hi).map _
  theorem srvAF (fmt : Fmt) : ∀ {fs : Fields} {ms ms' : Members} {k : List Nat}, InjectF fs ms ms' k →
      ∀ (strict : Bool) (acc : List (Nat × Val)),
        After k (deM fmt .server strict fs ms acc) (deM fmt .server strict fs ms' acc)
    | _, _, _, _, .here fs n i t x x' ms k hf hi, strict, acc => by
      rw [deM, deM]
      simp only [hf]
      split
      · exact After.same _ _
      · exact (srvA fmt hi).through
          (fun r => match r with | .ok v => deM fmt .server strict fs ms (acc ++ [(i, v)]) | .error e => .error e) (fun _ => rfl)
    | _, _, _, _, .there fs key x ms ms' k hi, strict, acc => by
      cases key with
      | flt b => rw [deM, deM]; exact After.same _ _
      | text n =>
        rw [deM, deM]
        cases hf : fieldIndex fs n 0 with
        | none =>
          simp only
          cases strict with
          | true => exact After.same _ _
          | false => simp only [Bool.false_eq_true, if_false]; exact srvAF fmt hi false acc
        | some p =>
          obtain ⟨i, t⟩ := p
          simp only
          split
          · exact After.same _ _
          · cases hd : de fmt .server t x with
            | error e => exact After.same _ _
            | ok w => simp only; exact srvAF fmt hi strict _
end

end ConjureVerif.Wrap
