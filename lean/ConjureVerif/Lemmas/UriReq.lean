import ConjureVerif.Lemmas.Uri
/-
Structured requests: a path template instantiated with parameter values plus query pairs, the pushes a
client method performs for it, and the normal form of the bytes those pushes produce.
-/
namespace ConjureVerif.Uri

inductive Seg
  | lit (s : List Nat)       -- constant template segment, as written into the URI
  | param (v : List Nat)     -- parameter value (PLAIN text bytes)

def Seg.raw (tbl : List Nat) : Seg → List Nat
  | .lit s => s
  | .param v => encode tbl v

def Seg.push : Seg → Push
  | .lit s => .literal [s]
  | .param v => .pathParam v

structure Req where
  segs : List Seg
  query : List (List Nat × List Nat)   -- (key, value), both as the caller supplies them

def pair (tbl : List Nat) (kv : List Nat × List Nat) : List Nat := encode tbl kv.1 ++ 61 :: encode tbl kv.2

def Req.pushes (tbl : List Nat) (r : Req) : List Push :=
  r.segs.map Seg.push ++ r.query.map (fun kv => Push.queryParam (encode tbl kv.1) kv.2)

def joinWith (d : Nat) : List (List Nat) → List Nat
  | [] => []
  | [p] => p
  | p :: q :: ps => p ++ d :: joinWith d (q :: ps)

def pathBytes (tbl : List Nat) (segs : List Seg) : List Nat := joinSegs (segs.map (Seg.raw tbl))

def queryBytes (tbl : List Nat) (q : List (List Nat × List Nat)) : List Nat :=
  if q.isEmpty then [] else 63 :: joinWith 38 (q.map (pair tbl))

theorem foldl_path (tbl : List Nat) (segs : List Seg) (b : Builder) :
    (segs.map Seg.push).foldl (Builder.push tbl) b =
      { buf := b.buf ++ pathBytes tbl segs, inPath := b.inPath } := by
  induction segs generalizing b with
  | nil => simp [pathBytes, joinSegs]
  | cons s ss ih =>
    simp only [List.map_cons, List.foldl_cons]
    rw [ih]
    cases s <;> simp [Seg.push, Builder.push, pathBytes, joinSegs, Seg.raw]

def ampPairs (tbl : List Nat) (q : List (List Nat × List Nat)) : List Nat :=
  (q.map (fun kv => 38 :: pair tbl kv)).flatten

theorem foldl_query_amp (tbl : List Nat) (q : List (List Nat × List Nat)) (b : Builder)
    (hb : b.inPath = false) :
    (q.map (fun kv => Push.queryParam (encode tbl kv.1) kv.2)).foldl (Builder.push tbl) b =
      { buf := b.buf ++ ampPairs tbl q, inPath := false } := by
  induction q generalizing b with
  | nil => cases b; simp_all [ampPairs]
  | cons kv rest ih =>
    simp only [List.map_cons, List.foldl_cons]
    rw [ih _ (by simp [Builder.push])]
    simp [Builder.push, hb, ampPairs, pair]

theorem joinWith_cons (tbl : List Nat) (kv : List Nat × List Nat) (rest : List (List Nat × List Nat)) :
    joinWith 38 ((kv :: rest).map (pair tbl)) = pair tbl kv ++ ampPairs tbl rest := by
  induction rest generalizing kv with
  | nil => simp [joinWith, ampPairs]
  | cons kv2 rest ih =>
    have := ih kv2
    simp only [List.map_cons] at this ⊢
    simp only [joinWith]
    rw [this]; simp [ampPairs]

theorem foldl_query (tbl : List Nat) (q : List (List Nat × List Nat)) (b : Builder)
    (hb : b.inPath = true) :
    ((q.map (fun kv => Push.queryParam (encode tbl kv.1) kv.2)).foldl (Builder.push tbl) b).buf =
      b.buf ++ queryBytes tbl q := by
  cases q with
  | nil => simp [queryBytes]
  | cons kv rest =>
    simp only [List.map_cons, List.foldl_cons]
    rw [foldl_query_amp _ _ _ (by simp [Builder.push])]
    simp only [queryBytes, List.isEmpty_cons, Bool.false_eq_true, if_false]
    rw [joinWith_cons]
    simp [Builder.push, hb, pair]

/-- the bytes a client method writes are the path normal form followed by the query normal form -/
theorem buildBuf_eq (tbl : List Nat) (r : Req) :
    buildBuf tbl (r.pushes tbl) = pathBytes tbl r.segs ++ queryBytes tbl r.query := by
  unfold buildBuf Req.pushes
  rw [List.foldl_append, foldl_path, foldl_query _ _ _ rfl]
  simp

theorem splitOn_joinWith (d : Nat) (ps : List (List Nat)) (hne : ps ≠ []) (h : ∀ p ∈ ps, d ∉ p) :
    splitOn d (joinWith d ps) = ps := by
  induction ps with
  | nil => exact absurd rfl hne
  | cons p rest ih =>
    have hp : d ∉ p := h p List.mem_cons_self
    cases rest with
    | nil => simp [joinWith, splitOn_not_mem d p hp]
    | cons q qs =>
      have := ih (by simp) (fun x hx => h x (List.mem_cons_of_mem _ hx))
      simp only [joinWith]
      rw [splitOn_append d p _ hp, this]

end ConjureVerif.Uri
