def hello := "world"
