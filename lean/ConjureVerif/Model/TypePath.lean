import ConjureVerif.Model.Hex
/-
Model of how generated code names a type of another (or the same) package (conjure-codegen/src/context.rs
`module_path`, `type_path`): a chain of `super`s out of the referring type's own module and up to the deepest module
both packages share, then down the other package's remaining modules, then the type's name.  Module paths are lists of
identifiers (the package's components after `ident_name`).
-/
namespace ConjureVerif.TypePath

/-- `module_path`: the package's modules, without the configured prefix when they begin with it -/
def modulePath (strip raw : List String) : List String :=
  if strip.isPrefixOf raw then raw.drop strip.length else raw

/-- `zip(..).take_while(|(a, b)| a == b).count()` -/
def shared : List String → List String → Nat
  | a :: as, b :: bs => if a = b then shared as bs + 1 else 0
  | _, _ => 0

inductive PSeg
  | super
  | name (s : String)
deriving DecidableEq, Repr

/-- `type_path` -/
def typePath (this other : List String) (typeName : String) : List PSeg :=
  let k := shared this other
  .super :: List.replicate (this.length - k) .super ++ (other.drop k).map .name ++ [.name typeName]

/-- how rustc reads a relative path from a module: `super` is the parent (there is none above the root of the
generated tree), a name is an item of the module reached so far -/
def resolve : List String → List PSeg → Option (List String)
  | cur, [] => some cur
  | cur, .super :: r => if cur.isEmpty then none else resolve cur.dropLast r
  | cur, .name s :: r => resolve (cur ++ [s]) r

/-! ### line protocol: `typepath <strip|-> <this package> <other package> <type name>` (dot-separated identifiers) -/
def comps (s : String) : List String := if s == "-" then [] else s.splitOn "."

def showPath (p : List PSeg) : String :=
  "::".intercalate (p.map (fun | .super => "super" | .name s => s))

def handle : List String → String
  | ["typepath", strip, this, other, tn] =>
    showPath (typePath (modulePath (comps strip) (comps this)) (modulePath (comps strip) (comps other)) tn)
  | _ => "bad-op"

end ConjureVerif.TypePath
