import ConjureVerif.Model.Hex
import ConjureVerif.Model.Dec
import ConjureVerif.Model.Base64
import ConjureVerif.Model.Uri
/-
Model of the Conjure PLAIN format (conjure-object/src/plain.rs): `Plain::fmt` / `FromPlain::from_plain`
for bool, i32, double, uuid, binary and datetime (safelong is in Model/SafeLong, rid and bearer token in
Model/Rid and Model/Token).  Text is bytes.
-/
namespace ConjureVerif.Plain
open ConjureVerif

/-! ### bool, i32 -/

def boolText (b : Bool) : List Nat := if b then [116, 114, 117, 101] else [102, 97, 108, 115, 101]

/-- `bool::from_str`: exactly `true` / `false` -/
def boolParse (s : List Nat) : Option Bool :=
  if s = [116, 114, 117, 101] then some true else if s = [102, 97, 108, 115, 101] then some false else none

def I32 (v : Int) : Prop := -2147483648 ≤ v ∧ v ≤ 2147483647
instance (v : Int) : Decidable (I32 v) := by unfold I32; exact inferInstance

def i32Text (v : Int) : List Nat := Dec.showInt v
def i32Parse (s : List Nat) : Option Int := (Dec.parseRust s).bind (fun v => if I32 v then some v else none)

/-! ### double: the Conjure-specific special-casing around Rust's `Display` / `FromStr` -/

/-- a double, up to NaN payload; a finite value is identified by `(k, negZero)` as in Model/Dbl -/
inductive Dbl
  | nan | posInf | negInf
  | fin (k : Int) (negZero : Bool)
deriving DecidableEq, Repr

/-- Rust's own behaviour, which this repository does not implement: `Display` and `FromStr` of f64 -/
structure FloatExt where
  display : Dbl → List Nat
  parse : List Nat → Option Dbl

def infinityText : List Nat := [73, 110, 102, 105, 110, 105, 116, 121]          -- "Infinity"
def negInfinityText : List Nat := 45 :: infinityText                            -- "-Infinity"

/-- `impl Plain for f64` -/
def dblText (E : FloatExt) (d : Dbl) : List Nat :=
  if d = .posInf then infinityText else if d = .negInf then negInfinityText else E.display d

/-- `impl FromPlain for f64` -/
def dblParse (E : FloatExt) (s : List Nat) : Option Dbl :=
  if s = infinityText then some .posInf else if s = negInfinityText then some .negInf else E.parse s

/-! ### uuid: 16 bytes, hyphenated lower-case hex -/

def hexLower (n : Nat) : Nat := if n < 10 then 48 + n else 87 + n
def hexEnc (bs : List Nat) : List Nat := bs.flatMap (fun b => [hexLower (b / 16), hexLower (b % 16)])

def unhexPairs : List Nat → Option (List Nat)
  | [] => some []
  | a :: b :: rest =>
    match Uri.unhexD a, Uri.unhexD b, unhexPairs rest with
    | some x, some y, some r => some ((x * 16 + y) :: r)
    | _, _, _ => none
  | _ => none

def joinHyphen : List (List Nat) → List Nat
  | [] => []
  | [p] => p
  | p :: q :: ps => p ++ 45 :: joinHyphen (q :: ps)

def uuidGroups (u : List Nat) : List (List Nat) :=
  [u.take 4, (u.drop 4).take 2, (u.drop 6).take 2, (u.drop 8).take 2, u.drop 10]

/-- `Display for Uuid` -/
def uuidText (u : List Nat) : List Nat := joinHyphen ((uuidGroups u).map hexEnc)

def uuidParseHyphenated (s : List Nat) : Option (List Nat) :=
  match Uri.splitOn 45 s with
  | [a, b, c, d, e] =>
    if a.length = 8 ∧ b.length = 4 ∧ c.length = 4 ∧ d.length = 4 ∧ e.length = 12 then
      match unhexPairs a, unhexPairs b, unhexPairs c, unhexPairs d, unhexPairs e with
      | some a, some b, some c, some d, some e => some (a ++ b ++ c ++ d ++ e)
      | _, _, _, _, _ => none
    else none
  | _ => none

def urnPrefix : List Nat := [117, 114, 110, 58, 117, 117, 105, 100, 58]   -- "urn:uuid:"

/-- `Uuid::from_str`: simple (32), hyphenated (36), braced hyphenated (38), urn (45) -/
def uuidParse (s : List Nat) : Option (List Nat) :=
  if s.length = 32 then (if s.contains 45 then none else unhexPairs s)
  else if s.length = 36 then uuidParseHyphenated s
  else if s.length = 38 then
    (if s.head? = some 123 ∧ s.getLast? = some 125 then uuidParseHyphenated ((s.drop 1).take 36) else none)
  else if s.length = 45 then
    (if s.take 9 = urnPrefix then uuidParseHyphenated (s.drop 9) else none)
  else none

/-! ### binary -/
def binText (bs : List Nat) : List Nat := Base64.encode bs
def binParse (s : List Nat) : Option (List Nat) := Base64.decode s

/-! ### datetime, as civil fields (the instant <-> civil conversion is chrono's) -/

structure Civil where
  year : Nat
  month : Nat
  day : Nat
  hour : Nat
  minute : Nat
  second : Nat
  nano : Nat
deriving DecidableEq, Repr

def isLeap (y : Nat) : Bool := (y % 4 = 0 && y % 100 ≠ 0) || y % 400 = 0

def daysIn (y m : Nat) : Nat :=
  if m = 2 then (if isLeap y then 29 else 28)
  else if m = 4 ∨ m = 6 ∨ m = 9 ∨ m = 11 then 30 else 31

def Civil.Valid (c : Civil) : Prop :=
  c.year ≤ 9999 ∧ 1 ≤ c.month ∧ c.month ≤ 12 ∧ 1 ≤ c.day ∧ c.day ≤ daysIn c.year c.month ∧
  c.hour ≤ 23 ∧ c.minute ≤ 59 ∧ c.second ≤ 59 ∧ c.nano ≤ 999999999

instance (c : Civil) : Decidable c.Valid := by unfold Civil.Valid; exact inferInstance

/-- `n` decimal digits of `v`, most significant first, zero padded -/
def padN : Nat → Nat → List Nat
  | 0, _ => []
  | n + 1, v => padN n (v / 10) ++ [48 + v % 10]

/-- reads exactly `n` decimal digits -/
def readN : Nat → List Nat → Option (Nat × List Nat)
  | 0, s => some (0, s)
  | n + 1, s =>
    match readN n s with
    | some (v, c :: rest) => if Dec.isDigit c then some (v * 10 + (c - 48), rest) else none
    | _ => none

/-- chrono's RFC 3339 fraction: none, 3, 6 or 9 digits -/
def fracText (ns : Nat) : List Nat :=
  if ns = 0 then []
  else if ns % 1000000 = 0 then 46 :: padN 3 (ns / 1000000)
  else if ns % 1000 = 0 then 46 :: padN 6 (ns / 1000)
  else 46 :: padN 9 ns

/-- `Plain for DateTime<Utc>`: `Fixed::RFC3339` for years 0000–9999 -/
def dtText (c : Civil) : List Nat :=
  padN 4 c.year ++ 45 :: padN 2 c.month ++ 45 :: padN 2 c.day ++ 84 :: padN 2 c.hour ++ 58 ::
    padN 2 c.minute ++ 58 :: padN 2 c.second ++ fracText c.nano ++ [43, 48, 48, 58, 48, 48]

def takeDigits : List Nat → List Nat × List Nat
  | [] => ([], [])
  | c :: rest => if Dec.isDigit c then let (d, r) := takeDigits rest; (c :: d, r) else ([], c :: rest)

/-- nanoseconds of a fraction digit string (1–9 digits; chrono truncates beyond 9) -/
def fracVal (ds : List Nat) : Nat :=
  let d9 := (ds ++ List.replicate 9 48).take 9
  Dec.digitsVal d9

def expect (c : Nat) : List Nat → Option (List Nat)
  | x :: rest => if x = c then some rest else none
  | [] => none

/-- zero UTC offsets: `Z`, `z`, `+00:00`, `-00:00` -/
def zeroOffset (s : List Nat) : Bool :=
  s = [90] || s = [122] || s = [43, 48, 48, 58, 48, 48] || s = [45, 48, 48, 58, 48, 48]

/-- optional fraction: `.` followed by at least one digit -/
def readFrac (s : List Nat) : Option Nat × List Nat :=
  match s with
  | 46 :: r => let (ds, r') := takeDigits r; (if ds.isEmpty then none else some (fracVal ds), r')
  | s => (some 0, s)

/-- `DateTime::parse_from_rfc3339` restricted to zero offsets (others need calendar arithmetic and are
    outside the round-trip statement) -/
def dtParse (s : List Nat) : Option Civil :=
  match readN 4 s with
  | none => none
  | some (y, s) =>
  match (expect 45 s).bind (readN 2) with
  | none => none
  | some (mo, s) =>
  match (expect 45 s).bind (readN 2) with
  | none => none
  | some (d, s) =>
  match (match s with | 84 :: r => some r | 116 :: r => some r | 32 :: r => some r | _ => none).bind (readN 2) with
  | none => none
  | some (h, s) =>
  match (expect 58 s).bind (readN 2) with
  | none => none
  | some (mi, s) =>
  match (expect 58 s).bind (readN 2) with
  | none => none
  | some (se, s) =>
    match readFrac s with
    | (none, _) => none
    | (some ns, s) =>
      let c : Civil := { year := y, month := mo, day := d, hour := h, minute := mi, second := se, nano := ns }
      if zeroOffset s ∧ c.Valid then some c else none

/-! ### line protocol -/
open ConjureVerif.Hex

def showBytes : Option (List Nat) → String
  | some b => "ok " ++ hex b
  | none => "err"

def clsOf : Dbl → String
  | .nan => "nan" | .posInf => "inf" | .negInf => "ninf" | .fin _ _ => "fin"

def parseCls : String → Option Dbl
  | "nan" => some .nan | "inf" => some .posInf | "ninf" => some .negInf | "fin" => some (.fin 0 false)
  | _ => none

def handle : List String → String
  | ["bool", b] => hex (boolText (b == "1"))
  | ["boolparse", h] => match unhex h with
    | some s => match boolParse s with
      | some b => if b then "ok 1" else "ok 0"
      | none => "err"
    | none => "bad-op"
  | ["i32", n] => match n.toInt? with
    | some v => if I32 v then hex (i32Text v) else "bad-op"
    | none => "bad-op"
  | ["i32parse", h] => match unhex h with
    | some s => match i32Parse s with
      | some v => s!"ok {v}"
      | none => "err"
    | none => "bad-op"
  -- the harness supplies Rust's own Display text / FromStr verdict; the model adds the special-casing
  | ["f64", cls, disp] => match parseCls cls, unhex disp with
    | some d, some t => hex (dblText { display := fun _ => t, parse := fun _ => none } d)
    | _, _ => "bad-op"
  | ["f64parse", h, rust] => match unhex h with
    | some s =>
      let r : Option Dbl := if rust == "err" then none else parseCls rust
      if rust != "err" ∧ r.isNone then "bad-op" else
      match dblParse { display := fun _ => [], parse := fun _ => r } s with
      | some d => "ok " ++ clsOf d
      | none => "err"
    | none => "bad-op"
  | ["uuid", h] => match unhex h with
    | some u => if u.length = 16 then hex (uuidText u) else "bad-op"
    | none => "bad-op"
  | ["uuidparse", h] => match unhex h with
    | some s => showBytes (uuidParse s)
    | none => "bad-op"
  | ["bin", h] => match unhex h with
    | some b => hex (binText b)
    | none => "bad-op"
  | ["binparse", h] => match unhex h with
    | some s => showBytes (binParse s)
    | none => "bad-op"
  | ["dt", y, mo, d, h, mi, s, ns] =>
    match y.toNat?, mo.toNat?, d.toNat?, h.toNat?, mi.toNat?, s.toNat?, ns.toNat? with
    | some y, some mo, some d, some h, some mi, some s, some ns =>
      let c : Civil := { year := y, month := mo, day := d, hour := h, minute := mi, second := s, nano := ns }
      if c.Valid then hex (dtText c) else "bad-op"
    | _, _, _, _, _, _, _ => "bad-op"
  | ["dtparse", h] => match unhex h with
    | some s => match dtParse s with
      | some c => s!"ok {c.year} {c.month} {c.day} {c.hour} {c.minute} {c.second} {c.nano}"
      | none => "err"
    | none => "bad-op"
  | _ => "bad-op"

end ConjureVerif.Plain
