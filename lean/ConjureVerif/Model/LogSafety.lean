/-
Model of the generator's log-safety decision (conjure-codegen/src/context.rs: `is_safe_arg`,
`type_log_safety`, `type_log_safety_ref`, `combine_safety`).  Only the question the generator asks —
"is the result `Some(Safe)`?" — is modelled, as a `Bool`: `combine_safety` returns `Safe` exactly when
both sides are `Safe`, an object's `try_fold` starts at `Safe`, a union's `fold` starts at unknown (so a
union is never `Safe`), enums are `Safe`, every primitive (unknown, or do-not-log for bearer tokens),
`any` and external types are not.  Type names are numbers (positions in the definition list).
-/
namespace ConjureVerif.LogSafety

inductive Ty
  | prim | ext
  | opt (t : Ty) | list (t : Ty) | set (t : Ty)
  | map (k v : Ty)
  | ref (n : Nat)
deriving DecidableEq, Repr

/-- declared safety of a field / alias / argument: `some true` = safe, `some false` = unsafe or do-not-log -/
abbrev Annot := Option Bool

inductive Def
  | alias (safety : Annot) (t : Ty)
  | enum
  | object (fields : List (Annot × Ty))
  | union (variants : List (Annot × Ty))
deriving Repr

/-- non-reference content of a type is safe?, and the named types it mentions -/
def tyParts : Ty → Bool × List Nat
  | .prim => (false, [])
  | .ext => (false, [])
  | .opt t => tyParts t
  | .list t => tyParts t
  | .set t => tyParts t
  | .map k v => ((tyParts k).1 && (tyParts v).1, (tyParts k).2 ++ (tyParts v).2)
  | .ref n => (true, [n])

/-- a declared safety wins and stops the descent -/
def memberParts (m : Annot × Ty) : Bool × List Nat :=
  match m.1 with
  | some b => (b, [])
  | none => tyParts m.2

def membersParts (ms : List (Annot × Ty)) : Bool × List Nat :=
  (ms.all (fun m => (memberParts m).1), ms.flatMap (fun m => (memberParts m).2))

/-- (own content safe?, referenced types) of a definition -/
def nodeOf : Def → Bool × List Nat
  | .alias s t => memberParts (s, t)
  | .enum => (true, [])
  | .object fs => membersParts fs
  | .union vs => (false, (membersParts vs).2)

def nodeAt (defs : List Def) (t : Nat) : Bool × List Nat :=
  match defs[t]? with
  | some d => nodeOf d
  | none => (false, [])

abbrev Memo := List (Nat × Bool)

/-- `type_log_safety_ref(name) == Some(Safe)` for a nested call: a final cached answer is used; a type
    in progress is provisionally safe; nothing is cached below the root -/
def evalRef (defs : List Def) (memo : Memo) : Nat → List Nat → Nat → Bool
  | 0, _, _ => true
  | fuel + 1, P, t =>
    match memo.lookup t with
    | some b => b
    | none =>
      if P.contains t then true
      else (nodeAt defs t).1 && (nodeAt defs t).2.all (fun c => evalRef defs memo fuel (t :: P) c)

/-- an outermost `type_log_safety_ref` call: the answer is cached -/
def queryRef (defs : List Def) (memo : Memo) (t : Nat) : Memo × Bool :=
  match memo.lookup t with
  | some b => (memo, b)
  | none =>
    let b := evalRef defs memo (defs.length + 1) [] t
    ((t, b) :: memo, b)

def queryRefs (defs : List Def) : Memo → List Nat → Memo × Bool
  | memo, [] => (memo, true)
  | memo, t :: ts =>
    let (m1, b1) := queryRef defs memo t
    let (m2, b2) := queryRefs defs m1 ts
    (m2, b1 && b2)

/-- `type_log_safety(ty) == Some(Safe)` at the top level -/
def queryTy (defs : List Def) (memo : Memo) (ty : Ty) : Memo × Bool :=
  let (m, b) := queryRefs defs memo (tyParts ty).2
  (m, (tyParts ty).1 && b)

structure Arg where
  safety : Annot          -- explicit `safety` on the argument
  legacySafe : Bool       -- `safe` tag or the com.palantir.logsafe.Safe marker
  ty : Ty
deriving Repr

/-- `is_safe_arg` -/
def isSafeArg (defs : List Def) (memo : Memo) (a : Arg) : Memo × Bool :=
  match a.safety with
  | some b => (memo, b)
  | none => if a.legacySafe then (memo, true) else queryTy defs memo a.ty

/-- a whole generation run: arguments in the order the generator meets them -/
def runArgs (defs : List Def) : Memo → List Arg → List Bool
  | _, [] => []
  | memo, a :: as => let (m, b) := isSafeArg defs memo a; b :: runArgs defs m as

/-! ### line protocol: S-expression-free, prefix notation
type: `p` prim, `x` external, `o<T>`, `l<T>`, `s<T>`, `m<K><V>`, `r<n>.`  ; annotation: `S` `U` `N`
def: `A<annot><T>` | `E` | `O<n>;(<annot><T>)*` | `U<n>;(<annot><T>)*` ; defs joined by `,`
arg: `<annot><legacy 0|1><T>` joined by `,` -/

def parseTy : Nat → List Char → Option (Ty × List Char)
  | 0, _ => none
  | _ + 1, 'p' :: r => some (.prim, r)
  | _ + 1, 'x' :: r => some (.ext, r)
  | f + 1, 'o' :: r => (parseTy f r).map (fun (t, r) => (.opt t, r))
  | f + 1, 'l' :: r => (parseTy f r).map (fun (t, r) => (.list t, r))
  | f + 1, 's' :: r => (parseTy f r).map (fun (t, r) => (.set t, r))
  | f + 1, 'm' :: r =>
    match parseTy f r with
    | some (k, r) => (parseTy f r).map (fun (v, r) => (.map k v, r))
    | none => none
  | _ + 1, 'r' :: r =>
    let ds := r.takeWhile Char.isDigit
    match r.dropWhile Char.isDigit with
    | '.' :: r' => (String.ofList ds).toNat?.map (fun n => (.ref n, r'))
    | _ => none
  | _, _ => none

def parseAnnot : List Char → Option (Annot × List Char)
  | 'S' :: r => some (some true, r)
  | 'U' :: r => some (some false, r)
  | 'N' :: r => some (none, r)
  | _ => none

def parseMembers : Nat → List Char → Option (List (Annot × Ty))
  | 0, _ => none
  | _ + 1, [] => some []
  | f + 1, cs =>
    match parseAnnot cs with
    | some (a, r) =>
      match parseTy 64 r with
      | some (t, r) => (parseMembers f r).map (fun ms => (a, t) :: ms)
      | none => none
    | none => none

def parseDef (s : String) : Option Def :=
  match s.toList with
  | ['E'] => some .enum
  | 'A' :: r =>
    match parseAnnot r with
    | some (a, r) => match parseTy 64 r with
      | some (t, []) => some (.alias a t)
      | _ => none
    | none => none
  | 'O' :: r => (parseMembers (r.length + 1) r).map Def.object
  | 'U' :: r => (parseMembers (r.length + 1) r).map Def.union
  | _ => none

def parseArg (s : String) : Option Arg :=
  match parseAnnot s.toList with
  | some (a, l :: r) =>
    match parseTy 64 r with
    | some (t, []) => some { safety := a, legacySafe := l == '1', ty := t }
    | _ => none
  | _ => none

def parseList {α : Type} (f : String → Option α) (s : String) : Option (List α) :=
  if s == "-" then some [] else
  (s.splitOn ",").foldr (fun t acc => match f t, acc with
    | some x, some l => some (x :: l)
    | _, _ => none) (some [])

def handle : List String → String
  | ["safe", defs, args] =>
    match parseList parseDef defs, parseList parseArg args with
    | some ds, some as => String.ofList ((runArgs ds [] as).map (fun b => if b then '1' else '0'))
    | _, _ => "bad-op"
  | _ => "bad-op"

end ConjureVerif.LogSafety
