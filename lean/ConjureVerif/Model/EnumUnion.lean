import ConjureVerif.Model.Any
import ConjureVerif.Model.AnyIO
/-
Model of generated enums (conjure-codegen/src/enums.rs: a serde-derived enum whose last variant is
`#[serde(untagged)] Unknown(Variant)` unless exhaustive; `Variant` validates `[A-Z0-9_]+`) and of
generated unions (conjure-codegen/src/unions.rs: the hand-written map visitor, `Variant_`,
`UnionField_`, `UnionTypeField_`; unknown variants carry an `Any`).
-/
namespace ConjureVerif.EnumUnion
open ConjureVerif.Data ConjureVerif.Wrap ConjureVerif.AnyM

/-! ### enums -/

inductive EnumVal
  | known (i : Nat)
  | unknown (s : List Nat)
deriving DecidableEq, Repr

/-- `valid_enum_variant`: non-empty, all of `[A-Z0-9_]` -/
def validVariant (s : List Nat) : Bool :=
  !s.isEmpty && s.all (fun b => (65 ≤ b && b ≤ 90) || (48 ≤ b && b ≤ 57) || b == 95)

def indexOf (values : List (List Nat)) (s : List Nat) : Option Nat :=
  let rec go : List (List Nat) → Nat → Option Nat
    | [], _ => none
    | v :: vs, i => if v = s then some i else go vs (i + 1)
  go values 0

/-- deserialization of a generated enum -/
def enumDe (exhaustive : Bool) (values : List (List Nat)) : Doc → Except DeErr EnumVal
  | .str s =>
    match indexOf values s with
    | some i => .ok (.known i)
    | none => if !exhaustive && validVariant s then .ok (.unknown s) else .error .other
  -- serde's externally tagged map form of a unit variant (recorded as finding D9 under C02)
  | .obj (.cons (.text s) .null .nil) =>
    match indexOf values s with
    | some i => .ok (.known i)
    | none => .error .other
  | _ => .error .other

def enumSer (values : List (List Nat)) : EnumVal → Option Doc
  | .known i => (values[i]?).map Doc.str
  | .unknown s => some (.str s)

/-! ### unions -/

/-- a union variant: wire name and how its payload is read / written (any serde type of the Wrap model) -/
structure UVariant where
  name : List Nat
  ty : Ty

inductive UVal
  | known (i : Nat) (v : Val)
  | unknown (name : List Nat) (payload : Any)

def typeKey : List Nat := [116, 121, 112, 101]    -- "type"

/-- `Variant_`: a listed name, or (unless exhaustive) any other string -/
inductive VTag
  | known (i : Nat)
  | unknown (s : List Nat)
deriving DecidableEq, Repr

def variantOf (exhaustive : Bool) (vs : List UVariant) (s : List Nat) : Option VTag :=
  match indexOf (vs.map (·.name)) s with
  | some i => some (.known i)
  | none => if exhaustive then none else some (.unknown s)

/-- payload of a tag: a listed variant reads its declared type, an unknown one any document -/
def payloadOf (fmt : Fmt) (side : Side) (vs : List UVariant) (tag : VTag) (p : Doc) : Except DeErr UVal :=
  match tag with
  | .known i =>
    match vs[i]? with
    | some v => (de fmt side v.ty p).map (UVal.known i)
    | none => .error .other
  | .unknown s =>
    match ofJson p with
    | some a => .ok (.unknown s a)
    | none => .error .other

/-- the generated `visit_map`: `{"type": n, n: p}` or `{n: p, "type": n}`, nothing else -/
def unionDe (fmt : Fmt) (side : Side) (exhaustive : Bool) (vs : List UVariant) : Doc → Except DeErr UVal
  | .obj (.cons (.text k1) d1 rest) =>
    if k1 = typeKey then
      -- type first
      match d1 with
      | .str t =>
        (match variantOf exhaustive vs t with
          | none => .error .other
          | some tag =>
            match rest with
            | .cons (.text k2) p .nil =>
              (match variantOf exhaustive vs k2 with
                | some tag2 => if tag = tag2 then payloadOf fmt side vs tag p else .error .other
                | none => .error .other)
            | _ => .error .other)        -- no value member, or more than two members
      | _ => .error .other
    else
      -- value first
      match variantOf exhaustive vs k1 with
      | none => .error .other
      | some tag =>
        match payloadOf fmt side vs tag d1 with
        | .error e => .error e
        | .ok v =>
          match rest with
          | .cons (.text k2) (.str t) .nil =>
            if k2 = typeKey then
              (match variantOf exhaustive vs t with
                | some tag2 => if tag = tag2 then .ok v else .error .other
                | none => .error .other)
            else .error .other
          | _ => .error .other
  | _ => .error .other

/-- the generated `Serialize`: always type first -/
def unionSer (fmt : Fmt) (vs : List UVariant) : UVal → Option Doc
  | .known i v =>
    match vs[i]? with
    | some uv => (ser fmt uv.ty v).map (fun d =>
        .obj (.cons (.text typeKey) (.str uv.name) (.cons (.text uv.name) d .nil)))
    | none => none
  | .unknown s a => (toJson a).map (fun d => .obj (.cons (.text typeKey) (.str s) (.cons (.text s) d .nil)))

/-! ### line protocol -/
open ConjureVerif.Hex ConjureVerif.WrapIO ConjureVerif.Sexp

def parseNames (s : String) : Option (List (List Nat)) :=
  if s == "-" then some [] else
  (s.splitOn ",").foldr (fun t acc => match unhex t, acc with
    | some n, some l => some (n :: l)
    | _, _ => none) (some [])

/-- variants as `hexname:tysexp` joined by `;` -/
def parseVariants (s : String) : Option (List UVariant) :=
  if s == "-" then some [] else
  (s.splitOn ";").foldr (fun t acc =>
    match t.splitOn ":" with
    | [n, ty] => (match unhex n, (parse ty).bind (readTy 200), acc with
        | some n, some ty, some l => some ({ name := n, ty := ty } :: l)
        | _, _, _ => none)
    | _ => none) (some [])

def handle : List String → String
  | ["enum", exh, values, doc] =>
    match parseNames values, (parse doc).bind (readDoc 200) with
    | some vs, some d =>
      (match enumDe (exh == "1") vs d with
        | .ok v => (match enumSer vs v with | some d' => "ok " ++ AnyIO.showDocS d' | none => "err")
        | .error _ => "err")
    | _, _ => "bad-op"
  | ["union", exh, variants, doc] =>
    match parseVariants variants, (parse doc).bind (readDoc 200) with
    | some vs, some d =>
      (match unionDe .json .client (exh == "1") vs d with
        | .ok v => (match unionSer .json vs v with | some d' => "ok " ++ AnyIO.showDocS d' | none => "err")
        | .error .unsupported => "unsupported"
        | .error _ => "err")
    | _, _ => "bad-op"
  | _ => "bad-op"

end ConjureVerif.EnumUnion
