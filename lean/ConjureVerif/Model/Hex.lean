/- hex text <-> bytes for the line protocol (empty byte string is written `_`) -/
namespace ConjureVerif.Hex

def hexVal (c : Char) : Option Nat :=
  if '0' ≤ c ∧ c ≤ '9' then some (c.toNat - 48)
  else if 'a' ≤ c ∧ c ≤ 'f' then some (c.toNat - 87)
  else none

def unhexL : List Char → Option (List Nat)
  | [] => some []
  | ['_'] => some []
  | a :: b :: rest =>
    match hexVal a, hexVal b, unhexL rest with
    | some x, some y, some r => some ((x * 16 + y) :: r)
    | _, _, _ => none
  | _ => none

def unhex (s : String) : Option (List Nat) := unhexL s.toList

def hexChar (n : Nat) : Char := if n < 10 then Char.ofNat (48 + n) else Char.ofNat (87 + n)

def hex (bs : List Nat) : String :=
  if bs.isEmpty then "_" else String.ofList (bs.flatMap (fun b => [hexChar (b / 16), hexChar (b % 16)]))

/-- lexicographic order on byte strings -/
def bytesLt : List Nat → List Nat → Bool
  | [], [] => false
  | [], _ :: _ => true
  | _ :: _, [] => false
  | a :: as, b :: bs => if a < b then true else if b < a then false else bytesLt as bs

def insertBy {α : Type} (lt : α → α → Bool) (x : α) : List α → List α
  | [] => [x]
  | y :: ys => if lt x y then x :: y :: ys else y :: insertBy lt x ys

/-- stable insertion sort (structural, so it reduces under `decide`) -/
def sortBy {α : Type} (lt : α → α → Bool) (xs : List α) : List α := xs.foldr (insertBy lt) []

end ConjureVerif.Hex
