import ConjureVerif.Model.Any
import ConjureVerif.Model.WrapIO
/- line protocol for the `any` model (C13); maps and objects are printed with entries sorted by the
   printed key, so that the real `BTreeMap` order and the model's insertion order compare equal -/
namespace ConjureVerif.AnyIO
open ConjureVerif.Data ConjureVerif.Wrap ConjureVerif.AnyM ConjureVerif.Sexp ConjureVerif.Hex ConjureVerif.WrapIO

def sortPairs (ps : List (String × String)) : List (String × String) :=
  sortBy (fun a b => decide (a.1 < b.1)) ps

mutual
  def readAny : Nat → Sexp → Option Any
    | 0, _ => none
    | _ + 1, .list [.atom "null"] => some .null
    | _ + 1, .list [.atom "b", .atom x] => some (.bool (x == "1"))
    | _ + 1, .list [.atom "i", .atom s, .atom bits, .atom n] =>
      match bits.toNat?, n.toInt? with
      | some b, some n => some (.int ⟨s == "s", b⟩ n)
      | _, _ => none
    | _ + 1, .list [.atom "f", .atom x] => (readDbl x).map Any.f32
    | _ + 1, .list [.atom "d", .atom x] => (readDbl x).map Any.f64
    | _ + 1, .list [.atom "s", .atom h] => (unhex h).map Any.str
    | _ + 1, .list [.atom "y", .atom h] => (unhex h).map Any.bytes
    | f + 1, .list (.atom "seq" :: xs) => (readAnys f xs).map Any.seq
    | f + 1, .list (.atom "map" :: es) => (readAnyEntries f es).map Any.map
    | _, _ => none
  def readAnys : Nat → List Sexp → Option Anys
    | 0, _ => none
    | _ + 1, [] => some .nil
    | f + 1, x :: xs =>
      match readAny f x, readAnys f xs with
      | some x, some xs => some (.cons x xs)
      | _, _ => none
  def readAnyEntries : Nat → List Sexp → Option AnyEntries
    | 0, _ => none
    | _ + 1, [] => some .nil
    | f + 1, .list [.atom "e", k, v] :: es =>
      match readAny f k, readAny f v, readAnyEntries f es with
      | some k, some v, some es => some (.cons k v es)
      | _, _, _ => none
    | _, _ => none
end

mutual
  def showAny : Any → String
    | .null => "(null)"
    | .bool b => if b then "(b,1)" else "(b,0)"
    | .int w n => s!"(i,{if w.signed then "s" else "u"},{w.bits},{n})"
    | .f32 d => s!"(f,{showDbl d})"
    | .f64 d => s!"(d,{showDbl d})"
    | .str s => s!"(s,{hex s})"
    | .bytes b => s!"(y,{hex b})"
    | .seq xs => s!"(seq{showAnys xs})"
    | .map es => "(map" ++ String.join ((sortPairs (anyEntryPairs es)).map (fun p => ",(e," ++ p.1 ++ "," ++ p.2 ++ ")")) ++ ")"
  def showAnys : Anys → String
    | .nil => ""
    | .cons x xs => "," ++ showAny x ++ showAnys xs
  def anyEntryPairs : AnyEntries → List (String × String)
    | .nil => []
    | .cons k v es => (showAny k, showAny v) :: anyEntryPairs es
end

mutual
  /-- values with map entries sorted by printed key -/
  def showValS : Val → String
    | .bool b => if b then "(b,1)" else "(b,0)"
    | .int n => s!"(i,{n})"
    | .f64 d => s!"(d,{showDbl d})"
    | .f32 d => s!"(f,{showDbl d})"
    | .str s => s!"(s,{hex s})"
    | .bytes b => s!"(y,{hex b})"
    | .unit => "(u)"
    | .uuid b => s!"(uuid,{hex b})"
    | .none => "(none)"
    | .some v => s!"(some,{showValS v})"
    | .seq vs => s!"(seq{showValsS vs})"
    | .tuple vs => s!"(tup{showValsS vs})"
    | .map es => "(map" ++ String.join ((sortPairs (entryPairs es)).map (fun p => ",(e," ++ p.1 ++ "," ++ p.2 ++ ")")) ++ ")"
    | .unitStruct => "(us)"
    | .newtype v => s!"(nt,{showValS v})"
    | .tupleStruct vs => s!"(ts{showValsS vs})"
    | .struct fs => s!"(st{showFValsS fs})"
    | .variant i p => s!"(var,{i},{showValS p})"
  def showValsS : Vals → String
    | .nil => ""
    | .cons v vs => "," ++ showValS v ++ showValsS vs
  def showFValsS : FVals → String
    | .nil => ""
    | .cons v vs => "," ++ showValS v ++ showFValsS vs
  def entryPairs : Entries → List (String × String)
    | .nil => []
    | .cons k v es => (showValS k, showValS v) :: entryPairs es
end

mutual
  /-- documents with object members sorted by printed key -/
  def showDocS : Doc → String
    | .null => "(null)"
    | .bool b => if b then "(b,1)" else "(b,0)"
    | .int n => s!"(i,{n})"
    | .dbl d => s!"(d,{showDbl d})"
    | .str s => s!"(s,{hex s})"
    | .bin b => s!"(y,{hex b})"
    | .arr xs => s!"(arr{showDocsS xs})"
    | .obj ms => "(obj" ++ String.join ((sortPairs (memberPairs ms)).map (fun p => ",(m," ++ p.1 ++ "," ++ p.2 ++ ")")) ++ ")"
  def showDocsS : Docs → String
    | .nil => ""
    | .cons x xs => "," ++ showDocS x ++ showDocsS xs
  def memberPairs : Members → List (String × String)
    | .nil => []
    | .cons k v ms => (showKey k, showDocS v) :: memberPairs ms
end

def showDeS : Except DeErr Val → String
  | .ok v => "ok " ++ showValS v
  | .error .unsupported => "unsupported"
  | .error _ => "err"

def handle : List String → String
  | ["any_new", ty, val] =>
    match (parse ty).bind (readTy 200), (parse val).bind (readVal 200) with
    | some ty, some v => (match ofVal ty v with | some a => showAny a | none => "err")
    | _, _ => "bad-op"
  | ["any_into", ty, a] =>
    match (parse ty).bind (readTy 200), (parse a).bind (readAny 200) with
    | some ty, some a => showDeS (toVal ty a)
    | _, _ => "bad-op"
  | ["any_json", a] =>
    match (parse a).bind (readAny 200) with
    | some a => (match toJson a with | some d => showDocS d | none => "err")
    | none => "bad-op"
  | ["json_any", d] =>
    match (parse d).bind (readDoc 200) with
    | some d => (match ofJson d with | some a => showAny a | none => "err")
    | none => "bad-op"
  | _ => "bad-op"

end ConjureVerif.AnyIO
