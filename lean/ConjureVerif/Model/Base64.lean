/-
Standard-alphabet, padded Base64 over bytes (`List Nat`, each < 256), as `base64::engine::general_purpose::STANDARD`
encodes and decodes it: canonical padding required, non-zero trailing bits rejected.
-/
namespace ConjureVerif.Base64

def ch (n : Nat) : Nat :=
  if n < 26 then 65 + n else if n < 52 then 71 + n else if n < 62 then n - 4 else if n = 62 then 43 else 47

def val (c : Nat) : Option Nat :=
  if 65 ≤ c ∧ c ≤ 90 then some (c - 65)
  else if 97 ≤ c ∧ c ≤ 122 then some (c - 71)
  else if 48 ≤ c ∧ c ≤ 57 then some (c + 4)
  else if c = 43 then some 62
  else if c = 47 then some 63
  else none

def encode : List Nat → List Nat
  | [] => []
  | [a] => [ch (a / 4), ch ((a % 4) * 16), 61, 61]
  | [a, b] => [ch (a / 4), ch ((a % 4) * 16 + b / 16), ch ((b % 16) * 4), 61]
  | a :: b :: c :: rest =>
    ch (a / 4) :: ch ((a % 4) * 16 + b / 16) :: ch ((b % 16) * 4 + c / 64) :: ch (c % 64) :: encode rest

def decode : List Nat → Option (List Nat)
  | [] => some []
  | [w, x, 61, 61] =>
    match val w, val x with
    | some w, some x => if x % 16 = 0 then some [w * 4 + x / 16] else none
    | _, _ => none
  | [w, x, y, 61] =>
    match val w, val x, val y with
    | some w, some x, some y => if y % 4 = 0 then some [w * 4 + x / 16, (x % 16) * 16 + y / 4] else none
    | _, _, _ => none
  | w :: x :: y :: z :: rest =>
    match val w, val x, val y, val z, decode rest with
    | some w, some x, some y, some z, some r =>
      some ((w * 4 + x / 16) :: ((x % 16) * 16 + y / 4) :: ((y % 4) * 64 + z) :: r)
    | _, _, _, _, _ => none
  | _ => none

end ConjureVerif.Base64
