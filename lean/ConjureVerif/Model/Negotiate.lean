import ConjureVerif.Model.Hex
/-
Model of content negotiation (conjure-http/src/server/runtime.rs): `mime_quality_inner`,
`mime_specificity`, `accepts`, `mime_matches`, `response_body_encoding`, `request_body_encoding`.
Media-type names are numbers (0 = `*`; the harness numbers lower-cased names using the same
`mediatype` crate), so tokenisation stays outside the model.
-/
namespace ConjureVerif.Negotiate

/-- a media range from the Accept header, after tokenisation -/
structure Range where
  ty : Nat        -- 0 = "*"
  subty : Nat     -- 0 = "*"
  suffix : Nat    -- 0 = none
  np : Nat        -- number of parameters other than q
  q : Nat         -- quality, 0..1000
  idx : Nat       -- position in the header(s)
deriving DecidableEq, Repr

/-- a registered encoding's media type -/
structure Enc where
  ty : Nat
  subty : Nat
  suffix : Nat
deriving DecidableEq, Repr

/-- the digit loop of `mime_quality_inner`: `value += digit * 10^(2 - idx)` -/
def qDigits : List Nat → Nat → Nat → Option Nat
  | [], _, acc => some acc
  | x :: xs, w, acc => if 48 ≤ x ∧ x ≤ 57 then qDigits xs (w / 10) (acc + (x - 48) * w) else none

/-- `mime_quality_inner` on the bytes of the q parameter's value -/
def parseQInner (s : List Nat) : Option Nat :=
  match s with
  | [] => none
  | c :: rest =>
    let base : Option Nat := if c = 49 then some 1000 else if c = 48 then some 0 else none
    match base with
    | none => none
    | some v =>
      match rest with
      | [] => some v
      | d :: ds =>
        if d ≠ 46 then none
        else if ds.length > 3 then none
        else qDigits ds 100 v

/-- `mime_quality`: absent or malformed q counts as 1 -/
def quality (q : Option (List Nat)) : Nat :=
  match q with
  | none => 1000
  | some s => (parseQInner s).getD 1000

/-- first two components of `mime_specificity` as a number: (ty ≠ *, subty ≠ *) -/
def Range.cls (r : Range) : Nat := (if r.ty ≠ 0 then 2 else 0) + (if r.subty ≠ 0 then 1 else 0)

/-- the sort order of `response_body_encoding`: specificity descending, quality descending, index ascending -/
def before (a b : Range) : Prop :=
  a.cls > b.cls ∨ (a.cls = b.cls ∧ (a.np > b.np ∨ (a.np = b.np ∧ (a.q > b.q ∨ (a.q = b.q ∧ a.idx ≤ b.idx)))))

instance (a b : Range) : Decidable (before a b) := by unfold before; exact inferInstance

def insertSorted (x : Range) : List Range → List Range
  | [] => [x]
  | y :: ys => if before x y then x :: y :: ys else y :: insertSorted x ys

def sortRanges (rs : List Range) : List Range := rs.foldr insertSorted []

/-- `accepts` -/
def accepts (r : Range) (e : Enc) : Bool :=
  (r.ty == 0 && r.subty == 0 && r.suffix == 0) ||
  (r.ty == e.ty && r.subty == 0) ||
  (r.ty == e.ty && r.subty == e.subty && r.suffix == e.suffix)

/-- per encoding: the first accepting range of the sorted list, dropped when its quality is 0 -/
def candidate (sorted : List Range) (e : Enc) : Option (Nat × Nat) :=
  match sorted.find? (fun r => accepts r e) with
  | some r => if r.q ≠ 0 then some (r.q, r.idx) else none
  | none => none

/-- ordering used by `max_by`: quality ascending, then index descending -/
def better (a b : Nat × Nat) : Prop := a.1 < b.1 ∨ (a.1 = b.1 ∧ a.2 ≥ b.2)   -- a ≤ b : b is at least as good
instance (a b : Nat × Nat) : Decidable (better a b) := by unfold better; exact inferInstance

/-- `Iterator::max_by`: the *last* maximal element -/
def maxFold {α : Type} (key : α → Nat × Nat) (x : α) (xs : List α) : α :=
  xs.foldl (fun m y => if better (key m) (key y) then y else m) x

def maxByLast {α : Type} (key : α → Nat × Nat) : List α → Option α
  | [] => none
  | x :: xs => some (maxFold key x xs)

/-- `response_body_encoding`: index (registration position) of the chosen encoding -/
def choose (rs : List Range) (es : List Enc) : Option Nat :=
  let rs := if rs.isEmpty then [{ ty := 0, subty := 0, suffix := 0, np := 0, q := 1000, idx := 0 }] else rs
  let sorted := sortRanges rs
  let cands : List (Nat × (Nat × Nat)) :=
    ((es.zipIdx).reverse).filterMap (fun (e, i) => (candidate sorted e).map (fun k => (i, k)))
  (maxByLast (fun c => c.2) cands).map (·.1)

/-- `mime_matches` / `request_body_encoding`: first registered encoding with the same essence -/
def requestEncoding (ct : Enc) (es : List Enc) : Option Nat :=
  (es.zipIdx.find? (fun (e, _) => e == ct)).map (·.2)

/-! ### line protocol
`neg <encodings> <ranges>`: encodings `ty.subty.suffix` joined by `,` (or `-`), ranges
`ty.subty.suffix.np.<qhex|none>` joined by `,` (or `-`).  Output `ok <position>` or `none`. -/
open ConjureVerif.Hex

def parseNats (s : String) : Option (List Nat) :=
  (s.splitOn ".").foldr (fun t acc => match t.toNat?, acc with
    | some n, some l => some (n :: l)
    | _, _ => none) (some [])

def parseEncs (s : String) : Option (List Enc) :=
  if s == "-" then some [] else
  (s.splitOn ",").foldr (fun t acc => match parseNats t, acc with
    | some [a, b, c], some l => some ({ ty := a, subty := b, suffix := c } :: l)
    | _, _ => none) (some [])

def parseRange (t : String) (idx : Nat) : Option Range :=
  match t.splitOn "." with
  | [a, b, c, d, q] =>
    match a.toNat?, b.toNat?, c.toNat?, d.toNat? with
    | some a, some b, some c, some d =>
      let qv : Option (Option (List Nat)) := if q == "none" then some none else (unhex q).map some
      qv.map (fun qv => { ty := a, subty := b, suffix := c, np := d, q := quality qv, idx := idx })
    | _, _, _, _ => none
  | _ => none

def parseRanges (s : String) : Option (List Range) :=
  if s == "-" then some [] else
  let toks := s.splitOn ","
  (toks.zipIdx).foldr (fun (t, i) acc => match parseRange t i, acc with
    | some r, some l => some (r :: l)
    | _, _ => none) (some [])

def handle : List String → String
  | ["neg", es, rs] => match parseEncs es, parseRanges rs with
    | some es, some rs => match choose rs es with
      | some i => s!"ok {i}"
      | none => "none"
    | _, _ => "bad-op"
  | ["req", es, ct] => match parseEncs es, parseEncs ct with
    | some es, some [ct] => match requestEncoding ct es with
      | some i => s!"ok {i}"
      | none => "none"
    | _, _ => "bad-op"
  | ["q", h] => match unhex h with
    | some s => toString (quality (some s))
    | none => "bad-op"
  | _ => "bad-op"

end ConjureVerif.Negotiate
