import ConjureVerif.Model.Dec
import ConjureVerif.Model.Hex
import ConjureVerif.Gen.SafeLong
/-
Model of conjure-object's `SafeLong` (safe_long.rs).  The bounds, the acceptance condition of
`SafeLong::new`, and the lists of integer widths with unchecked / checked conversions are *not* written
here: they come from `Gen.SafeLong`, re-extracted from the Rust source on every run.
-/
namespace ConjureVerif.SafeLong
open ConjureVerif

/-- `SafeLong::new` -/
def new (v : Int) : Option Int := if Gen.SafeLong.newCond v then some v else none

/-- `i64::try_from` on a mathematical integer -/
def i64Of (v : Int) : Option Int :=
  if -9223372036854775808 ≤ v ∧ v ≤ 9223372036854775807 then some v else none

/-- the value range of a Rust integer type `(signed, bits)` -/
def InWidth (w : Bool × Nat) (v : Int) : Prop :=
  if w.1 then -(2 ^ (w.2 - 1) : Int) ≤ v ∧ v < (2 ^ (w.2 - 1) : Int) else 0 ≤ v ∧ v < (2 ^ w.2 : Int)

instance (w : Bool × Nat) (v : Int) : Decidable (InWidth w v) := by unfold InWidth; exact inferInstance

/-- `impl_try_from!`: `i64::try_from(n).map_err(..).and_then(SafeLong::new)` -/
def tryFrom (v : Int) : Option Int := (i64Of v).bind new

/-- `impl_from!`: `SafeLong(i64::from(n))` — no check at all; safe only because of the width list -/
def fromUnchecked (v : Int) : Int := v

/-- `FromStr`: `s.parse::<i64>()` then `new` -/
def fromStr (s : List Nat) : Option Int := ((Dec.parseRust s).bind i64Of).bind new

/-- `Deserialize` from a JSON integer token / stringified JSON map key: `i64::deserialize` then `new` -/
def fromJsonInt (s : List Nat) : Option Int := ((Dec.parseJson s).bind i64Of).bind new

/-- routes by which a `SafeLong` can come into existence -/
inductive Route
  | new | tryFrom | fromW (w : Bool × Nat) | fromStr | plain | jsonValue | jsonKey | smile | any

/-- input of a route: an integer, or text -/
inductive Input
  | int (v : Int)
  | text (s : List Nat)

def run : Route → Input → Option Int
  | .new, .int v => (i64Of v).bind new          -- the argument is an `i64`
  | .tryFrom, .int v => tryFrom v
  | .fromW _, .int v => some (fromUnchecked v)
  | .fromStr, .text s => fromStr s
  | .plain, .text s => fromStr s                -- `FromPlain for SafeLong` is `FromStr`
  | .jsonValue, .text s => fromJsonInt s
  | .jsonKey, .text s => fromJsonInt s
  | .smile, .int v => (i64Of v).bind new        -- an integer token, `i64::deserialize` then `new`
  | .any, .int v => (i64Of v).bind new          -- `Any` holding an integer, viewed as `SafeLong`
  | _, _ => none

/-! ### line protocol -/

def showOpt : Option Int → String
  | some v => s!"ok {v}"
  | none => "err"

def unhex (cs : List Char) : Option (List Nat) := Hex.unhexL cs

def handle : List String → String
  | ["new", n] => match n.toInt? with
    | some v => showOpt (run .new (.int v))
    | none => "bad-op"
  | ["tryfrom", n] => match n.toInt? with
    | some v => showOpt (run .tryFrom (.int v))
    | none => "bad-op"
  | ["from", s, b, n] => match b.toNat?, n.toInt? with
    | some bits, some v =>
      let w := (s == "i", bits)
      if w ∈ Gen.SafeLong.fromWidths ∧ InWidth w v then showOpt (run (.fromW w) (.int v)) else "bad-op"
    | _, _ => "bad-op"
  | ["fromstr", h] => match unhex h.toList with
    | some s => showOpt (run .fromStr (.text s))
    | none => "bad-op"
  | ["plain", h] => match unhex h.toList with
    | some s => showOpt (run .plain (.text s))
    | none => "bad-op"
  | ["jsonvalue", h] => match unhex h.toList with
    | some s => showOpt (run .jsonValue (.text s))
    | none => "bad-op"
  | ["jsonkey", h] => match unhex h.toList with
    | some s => showOpt (run .jsonKey (.text s))
    | none => "bad-op"
  | ["smile", n] => match n.toInt? with
    | some v => showOpt (run .smile (.int v))
    | none => "bad-op"
  | ["any", n] => match n.toInt? with
    | some v => showOpt (run .any (.int v))
    | none => "bad-op"
  | _ => "bad-op"

end ConjureVerif.SafeLong
