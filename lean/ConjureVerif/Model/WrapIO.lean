import ConjureVerif.Model.Wrap
import ConjureVerif.Model.Sexp
import ConjureVerif.Model.Hex
/- line-protocol readers and printers for `Ty`, `Val`, `Doc` -/
namespace ConjureVerif.WrapIO
open ConjureVerif.Data ConjureVerif.Wrap ConjureVerif.Sexp ConjureVerif.Hex

def hexNat (s : String) : Option Nat :=
  s.toList.foldl (fun acc c => match acc, hexVal c with
    | some a, some d => some (a * 16 + d)
    | _, _ => none) (some 0)

def natHex (n : Nat) : String :=
  if n = 0 then "0" else
  let rec go (fuel n : Nat) (acc : List Char) : List Char :=
    match fuel with
    | 0 => acc
    | f + 1 => if n = 0 then acc else go f (n / 16) (hexChar (n % 16) :: acc)
  String.ofList (go 40 n [])

def readDbl (s : String) : Option Dbl :=
  if s == "nan" then some .nan else if s == "inf" then some .posInf else if s == "ninf" then some .negInf
  else if s.startsWith "x" then (hexNat (s.drop 1).toString).map Dbl.fin else none

def showDbl : Dbl → String
  | .nan => "nan" | .posInf => "inf" | .negInf => "ninf" | .fin b => "x" ++ natHex b

/-! ### types -/
mutual
  def readTy : Nat → Sexp → Option Ty
    | 0, _ => none
    | _ + 1, .list [.atom "b"] => some .bool
    | _ + 1, .list [.atom "i", .atom s, .atom bits] => bits.toNat?.map (fun b => Ty.int ⟨s == "s", b⟩)
    | _ + 1, .list [.atom "d"] => some .f64
    | _ + 1, .list [.atom "f"] => some .f32
    | _ + 1, .list [.atom "s"] => some .str
    | _ + 1, .list [.atom "y"] => some .bytes
    | _ + 1, .list [.atom "u"] => some .unit
    | _ + 1, .list [.atom "uuid"] => some .uuid
    | f + 1, .list [.atom "opt", t] => (readTy f t).map Ty.option
    | f + 1, .list [.atom "seq", t] => (readTy f t).map Ty.seq
    | f + 1, .list (.atom "tup" :: ts) => (readTys f ts).map Ty.tuple
    | f + 1, .list [.atom "map", k, v] =>
      match readTy f k, readTy f v with
      | some k, some v => some (.map k v)
      | _, _ => none
    | _ + 1, .list [.atom "us"] => some .unitStruct
    | f + 1, .list [.atom "nt", t] => (readTy f t).map Ty.newtype
    | f + 1, .list (.atom "ts" :: ts) => (readTys f ts).map Ty.tupleStruct
    | f + 1, .list (.atom "st" :: fs) => (readFields f fs).map Ty.struct
    | f + 1, .list (.atom "en" :: vs) => (readVariants f vs).map Ty.enum
    | _, _ => none
  def readTys : Nat → List Sexp → Option Tys
    | 0, _ => none
    | _ + 1, [] => some .nil
    | f + 1, t :: ts =>
      match readTy f t, readTys f ts with
      | some t, some ts => some (.cons t ts)
      | _, _ => none
  def readFields : Nat → List Sexp → Option Fields
    | 0, _ => none
    | _ + 1, [] => some .nil
    | f + 1, .list [.atom "f", .atom name, t] :: fs =>
      match unhex name, readTy f t, readFields f fs with
      | some n, some t, some fs => some (.cons n t fs)
      | _, _, _ => none
    | _, _ => none
  def readVariants : Nat → List Sexp → Option Variants
    | 0, _ => none
    | _ + 1, [] => some .nil
    | f + 1, .list [.atom "v", .atom name, .atom kind, t] :: vs =>
      let k : Option VKind := if kind == "u" then some .unit else if kind == "n" then some .newtype
        else if kind == "t" then some .tuple else if kind == "s" then some .struct else none
      match unhex name, k, readTy f t, readVariants f vs with
      | some n, some k, some t, some vs => some (.cons n k t vs)
      | _, _, _, _ => none
    | _, _ => none
end

/-! ### values -/
mutual
  def readVal : Nat → Sexp → Option Val
    | 0, _ => none
    | _ + 1, .list [.atom "b", .atom x] => some (.bool (x == "1"))
    | _ + 1, .list [.atom "i", .atom n] => n.toInt?.map Val.int
    | _ + 1, .list [.atom "d", .atom x] => (readDbl x).map Val.f64
    | _ + 1, .list [.atom "f", .atom x] => (readDbl x).map Val.f32
    | _ + 1, .list [.atom "s", .atom h] => (unhex h).map Val.str
    | _ + 1, .list [.atom "y", .atom h] => (unhex h).map Val.bytes
    | _ + 1, .list [.atom "u"] => some .unit
    | _ + 1, .list [.atom "uuid", .atom h] => (unhex h).map Val.uuid
    | _ + 1, .list [.atom "none"] => some .none
    | f + 1, .list [.atom "some", v] => (readVal f v).map Val.some
    | f + 1, .list (.atom "seq" :: vs) => (readVals f vs).map Val.seq
    | f + 1, .list (.atom "tup" :: vs) => (readVals f vs).map Val.tuple
    | f + 1, .list (.atom "map" :: es) => (readEntries f es).map Val.map
    | _ + 1, .list [.atom "us"] => some .unitStruct
    | f + 1, .list [.atom "nt", v] => (readVal f v).map Val.newtype
    | f + 1, .list (.atom "ts" :: vs) => (readVals f vs).map Val.tupleStruct
    | f + 1, .list (.atom "st" :: vs) => (readFVals f vs).map Val.struct
    | f + 1, .list [.atom "var", .atom i, p] =>
      match i.toNat?, readVal f p with
      | some i, some p => some (.variant i p)
      | _, _ => none
    | _, _ => none
  def readVals : Nat → List Sexp → Option Vals
    | 0, _ => none
    | _ + 1, [] => some .nil
    | f + 1, v :: vs =>
      match readVal f v, readVals f vs with
      | some v, some vs => some (.cons v vs)
      | _, _ => none
  def readFVals : Nat → List Sexp → Option FVals
    | 0, _ => none
    | _ + 1, [] => some .nil
    | f + 1, v :: vs =>
      match readVal f v, readFVals f vs with
      | some v, some vs => some (.cons v vs)
      | _, _ => none
  def readEntries : Nat → List Sexp → Option Entries
    | 0, _ => none
    | _ + 1, [] => some .nil
    | f + 1, .list [.atom "e", k, v] :: es =>
      match readVal f k, readVal f v, readEntries f es with
      | some k, some v, some es => some (.cons k v es)
      | _, _, _ => none
    | _, _ => none
end

mutual
  def showVal : Val → String
    | .bool b => if b then "(b,1)" else "(b,0)"
    | .int n => s!"(i,{n})"
    | .f64 d => s!"(d,{showDbl d})"
    | .f32 d => s!"(f,{showDbl d})"
    | .str s => s!"(s,{hex s})"
    | .bytes b => s!"(y,{hex b})"
    | .unit => "(u)"
    | .uuid b => s!"(uuid,{hex b})"
    | .none => "(none)"
    | .some v => s!"(some,{showVal v})"
    | .seq vs => s!"(seq{showVals vs})"
    | .tuple vs => s!"(tup{showVals vs})"
    | .map es => s!"(map{showEntries es})"
    | .unitStruct => "(us)"
    | .newtype v => s!"(nt,{showVal v})"
    | .tupleStruct vs => s!"(ts{showVals vs})"
    | .struct fs => s!"(st{showFVals fs})"
    | .variant i p => s!"(var,{i},{showVal p})"
  def showVals : Vals → String
    | .nil => ""
    | .cons v vs => "," ++ showVal v ++ showVals vs
  def showFVals : FVals → String
    | .nil => ""
    | .cons v vs => "," ++ showVal v ++ showFVals vs
  def showEntries : Entries → String
    | .nil => ""
    | .cons k v es => ",(e," ++ showVal k ++ "," ++ showVal v ++ ")" ++ showEntries es
end

/-! ### documents -/
def readKey (s : String) : Option Key :=
  if s.startsWith "t" then (unhex (s.drop 1).toString).map Key.text
  else if s.startsWith "f" then (hexNat (s.drop 1).toString).map Key.flt else none

def showKey : Key → String
  | .text s => "t" ++ hex s
  | .flt b => "f" ++ natHex b

mutual
  def readDoc : Nat → Sexp → Option Doc
    | 0, _ => none
    | _ + 1, .list [.atom "null"] => some .null
    | _ + 1, .list [.atom "b", .atom x] => some (.bool (x == "1"))
    | _ + 1, .list [.atom "i", .atom n] => n.toInt?.map Doc.int
    | _ + 1, .list [.atom "d", .atom x] => (readDbl x).map Doc.dbl
    | _ + 1, .list [.atom "s", .atom h] => (unhex h).map Doc.str
    | _ + 1, .list [.atom "y", .atom h] => (unhex h).map Doc.bin
    | f + 1, .list (.atom "arr" :: xs) => (readDocs f xs).map Doc.arr
    | f + 1, .list (.atom "obj" :: ms) => (readMembers f ms).map Doc.obj
    | _, _ => none
  def readDocs : Nat → List Sexp → Option Docs
    | 0, _ => none
    | _ + 1, [] => some .nil
    | f + 1, x :: xs =>
      match readDoc f x, readDocs f xs with
      | some x, some xs => some (.cons x xs)
      | _, _ => none
  def readMembers : Nat → List Sexp → Option Members
    | 0, _ => none
    | _ + 1, [] => some .nil
    | f + 1, .list [.atom "m", .atom k, v] :: ms =>
      match readKey k, readDoc f v, readMembers f ms with
      | some k, some v, some ms => some (.cons k v ms)
      | _, _, _ => none
    | _, _ => none
end

mutual
  def showDoc : Doc → String
    | .null => "(null)"
    | .bool b => if b then "(b,1)" else "(b,0)"
    | .int n => s!"(i,{n})"
    | .dbl d => s!"(d,{showDbl d})"
    | .str s => s!"(s,{hex s})"
    | .bin b => s!"(y,{hex b})"
    | .arr xs => s!"(arr{showDocs xs})"
    | .obj ms => s!"(obj{showMembers ms})"
  def showDocs : Docs → String
    | .nil => ""
    | .cons x xs => "," ++ showDoc x ++ showDocs xs
  def showMembers : Members → String
    | .nil => ""
    | .cons k v ms => ",(m," ++ showKey k ++ "," ++ showDoc v ++ ")" ++ showMembers ms
end

def readFmt (s : String) : Option Fmt := if s == "json" then some .json else if s == "smile" then some .smile else none
def readSide (s : String) : Option Side := if s == "client" then some .client else if s == "server" then some .server else none

def showDe : Except DeErr Val → String
  | .ok v => "ok " ++ showVal v
  | .error (.unknownField n) => "err-unknown " ++ hex n
  | .error .other => "err"
  | .error .unsupported => "unsupported"

def handle : List String → String
  | ["ser", fmt, ty, val] =>
    match readFmt fmt, (parse ty).bind (readTy 200), (parse val).bind (readVal 200) with
    | some fmt, some ty, some v => match ser fmt ty v with
      | some d => showDoc d
      | none => "err"
    | _, _, _ => "bad-op"
  | ["de", fmt, side, ty, doc] =>
    match readFmt fmt, readSide side, (parse ty).bind (readTy 200), (parse doc).bind (readDoc 200) with
    | some fmt, some side, some ty, some d => showDe (de fmt side ty d)
    | _, _, _, _ => "bad-op"
  | _ => "bad-op"

end ConjureVerif.WrapIO
