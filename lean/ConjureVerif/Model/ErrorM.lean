import ConjureVerif.Model.Any
import ConjureVerif.Model.AnyIO
import ConjureVerif.Gen.StatusCodes
/-
Model of conjure-error: `encode` (lib.rs) with `ParametersSerializer` / `StringSeed` (ser.rs),
`Error::service_inner`'s partition of parameters (error.rs), `ErrorCode::status_code`, and the
generator's `safe_args` list (conjure-codegen/src/errors.rs).
-/
namespace ConjureVerif.ErrorM
open ConjureVerif.Data ConjureVerif.Wrap ConjureVerif.AnyM

/-- text of a parameter: literal text, or the (Rust `Display`) text of a double -/
inductive PText
  | text (s : List Nat)
  | dbl (d : Dbl)
deriving DecidableEq, Repr

/-- `StringSeed` on an `Any`: `StringVisitor` implements visit_bool / i64 / u64 / f64 / str / string
    (serde's defaults route the narrower integer and float methods and `char` to these) -/
def stringSeed : Any → Option PText
  | .bool b => some (.text (if b then txtTrue else txtFalse))
  | .int w n => if w.bits ≤ 64 then some (.text (Dec.showInt n)) else none
  | .f64 d => some (.dbl d)
  | .f32 d => some (.dbl d)
  | .str s => some (.text s)
  | _ => none          -- null (absent), bytes, seq, map: no scalar text, the parameter is omitted

/-- `ParametersSerializer` + the loop of `encode`: one entry per field whose value is scalar -/
def encodeParams : Fields → FVals → Option (List (List Nat × PText))
  | .nil, .nil => some []
  | .cons name t fs, .cons v vs =>
    match ofVal t v, encodeParams fs vs with
    | some a, some rest =>
      (match stringSeed a with
        | some txt => some ((name, txt) :: rest)
        | none => some rest)
    | _, _ => none
  | _, _ => none

/-- `service_inner`: a parameter is safe exactly when the error type lists it -/
def partition (safeArgs : List (List Nat)) (params : List (List Nat × PText)) :
    List (List Nat × PText) × List (List Nat × PText) :=
  (params.filter (fun p => safeArgs.contains p.1), params.filter (fun p => !safeArgs.contains p.1))

/-- the generator: `safe_args` is the sorted list of the declared safe argument names -/
def genSafeArgs (declared : List (List Nat)) : List (List Nat) := Hex.sortBy Hex.bytesLt declared

/-- `ErrorCode::status_code`, as extracted -/
def statusCode (code : String) : Option Nat := Gen.StatusCodes.table.lookup code

/-! ### line protocol -/
open ConjureVerif.Hex ConjureVerif.WrapIO ConjureVerif.Sexp

def showPText : PText → String
  | .text s => "t:" ++ hex s
  | .dbl d => "d:" ++ showDbl d

def showParams (ps : List (List Nat × PText)) : String :=
  let items := AnyIO.sortPairs (ps.map (fun p => (hex p.1, showPText p.2)))
  if items.isEmpty then "-" else String.intercalate ";" (items.map (fun p => p.1 ++ "=" ++ p.2))

def parseNames (s : String) : Option (List (List Nat)) :=
  if s == "-" then some [] else
  (s.splitOn ",").foldr (fun t acc => match unhex t, acc with
    | some n, some l => some (n :: l)
    | _, _ => none) (some [])

def handle : List String → String
  | ["encode", ty, val] =>
    match (parse ty).bind (readTy 200), (parse val).bind (readVal 200) with
    | some (.struct fs), some (.struct vs) =>
      (match encodeParams fs vs with | some ps => showParams ps | none => "err")
    | _, _ => "bad-op"
  | ["partition", safe, ty, val] =>
    match parseNames safe, (parse ty).bind (readTy 200), (parse val).bind (readVal 200) with
    | some safe, some (.struct fs), some (.struct vs) =>
      (match encodeParams fs vs with
        | some ps => let (a, b) := partition safe ps
                     "safe=" ++ showParams a ++ " unsafe=" ++ showParams b
        | none => "err")
    | _, _, _ => "bad-op"
  | ["status", code] => match statusCode code with
    | some n => toString n
    | none => "unknown"
  | ["safeargs", names] => match parseNames names with
    | some ns => let r := genSafeArgs ns
                 if r.isEmpty then "-" else String.intercalate "," (r.map hex)
    | none => "bad-op"
  | _ => "bad-op"

end ConjureVerif.ErrorM
