import ConjureVerif.Model.Sexp
import ConjureVerif.Model.Uri
import ConjureVerif.Model.Plain
import ConjureVerif.Model.Rid
import ConjureVerif.Model.Token
import ConjureVerif.Model.SafeLong
import ConjureVerif.Gen.ParamNames
/-
Model of what a `#[conjure_endpoints]` handler does before the user's method runs
(conjure-macros/src/endpoints.rs `generate_endpoint_handler`/`generate_arg`, conjure-http/src/private/server.rs,
the decoders of conjure-http/src/server/{mod,conjure}.rs): arguments are decoded in declaration order, the
first failure ends the request with an error carrying a code, a safe/unsafe cause flag and safe parameters;
each argument declared safe is recorded in the response's `SafeParams` right after it decoded.

Data is *labelled* by origin so that non-interference (C09) can be stated: `Label.const` for text fixed in the
program, `Label.arg i` for anything computed from the request data of argument `i`.
-/
namespace ConjureVerif.Endpoint
open ConjureVerif ConjureVerif.Sexp

abbrev Bytes := List Nat

inductive PTy
  | str | int | bool | uuid | rid | token | safelong | datetime | double | enum
deriving DecidableEq, Repr

def validVariant (s : Bytes) : Bool :=
  !s.isEmpty && s.all (fun b => (65 ≤ b && b ≤ 90) || (48 ≤ b && b ≤ 57) || b == 95)

/-- does `FromPlain` accept the text?  `ext` is Rust's own `f64::from_str` verdict (used for doubles only) -/
def parses (ext : Bytes → Bool) : PTy → Bytes → Bool
  | .str, _ => true
  | .int, s => (Plain.i32Parse s).isSome
  | .bool, s => (Plain.boolParse s).isSome
  | .uuid, s => (Plain.uuidParse s).isSome
  | .rid, s => (Rid.parse s).isSome
  | .token, s => Token.isValid s
  | .safelong, s => (SafeLong.fromStr s).isSome
  | .datetime, s => (Plain.dtParse s).isSome
  | .double, s => (Plain.dblParse { display := fun _ => [], parse := fun t => if ext t then some (.fin 0 false) else none } s).isSome
  | .enum, s => validVariant s

inductive Kind
  | path | query | header | auth | cookie | body | context
deriving DecidableEq, Repr

/-- decoder cardinality: FromPlainDecoder / FromPlainOptionDecoder / FromPlainSeqDecoder (FromDecoder is transparent);
for bodies: Std / Optional / Binary request deserializer -/
inductive Dec
  | one | opt | seq | std | optional | binary
deriving DecidableEq, Repr

structure ArgSpec where
  kind : Kind
  dec : Dec
  ty : PTy
  /-- path parameter name / query key / lower-case header name / cookie prefix `name=` -/
  name : Bytes
  /-- the `log_as` name (declared name), or the identifier when no `log_as` was given -/
  logName : Bytes
  /-- the Rust identifier of the argument -/
  ident : Bytes
  safe : Bool
deriving Repr

inductive CtClass
  | absent | nontext | unparsable | other | json | smile | octet
deriving DecidableEq, Repr

inductive Payload
  | ok | malformed | toolarge
deriving DecidableEq, Repr

structure Request where
  pathParams : List (Bytes × Bytes)          -- name ↦ raw (still percent-encoded) value
  query : Option Bytes                       -- raw query string
  headers : List (Bytes × Bytes)             -- lower-case name, value bytes, in order
  ct : CtClass
  payload : Payload
  /-- Rust's verdict on double texts -/
  dbl : List (Bytes × Bool)

inductive Code
  | invalidArgument | permissionDenied
deriving DecidableEq, Repr

inductive Label
  | const | arg (i : Nat)
deriving DecidableEq, Repr

structure Err where
  code : Code
  causeSafe : Bool
  /-- where the text of the cause comes from -/
  cause : Label
  actual : Option Nat := none
  param : Option Bytes := none
deriving Repr

/-- which name a `generate_<kind>_arg` hands to the runtime helper (extracted from the macro source) -/
def nameSource (kind : String) : String := (Gen.ParamNames.source.lookup kind).getD "unknown"

def reportedName (a : ArgSpec) : Option Bytes :=
  let pick (k : String) : Option Bytes :=
    if nameSource k == "logAs" then some a.logName else if nameSource k == "ident" then some a.ident else none
  match a.kind with
  | .path => pick "path"
  | .query => pick "query"
  | .header => pick "header"
  | .body => pick "body"
  | _ => none

def safeKey (a : ArgSpec) : Bytes := if nameSource "safeKey" == "ident" then a.ident else a.logName

def toStrOk (v : Bytes) : Bool := v.all (fun b => b == 9 || (32 ≤ b && b < 127))

def cardErr (n : Nat) : Err := { code := .invalidArgument, causeSafe := true, cause := .const, actual := some n }
def valueErr (i : Nat) : Err := { code := .invalidArgument, causeSafe := false, cause := .arg i }

/-- `only_item` / `optional_item` then `FromPlain`; sequences parse every item -/
def decodeParam (ext : Bytes → Bool) (i : Nat) (dec : Dec) (ty : PTy) (vals : List Bytes) : Except Err Unit :=
  match dec with
  | .one => match vals with
    | [v] => if parses ext ty v then .ok () else .error (valueErr i)
    | _ => .error (cardErr vals.length)
  | .opt => match vals with
    | [] => .ok ()
    | [v] => if parses ext ty v then .ok () else .error (valueErr i)
    | _ => .error (cardErr vals.length)
  | _ => if vals.all (parses ext ty) then .ok () else .error (valueErr i)

def decodeHeader (ext : Bytes → Bool) (i : Nat) (dec : Dec) (ty : PTy) (vals : List Bytes) : Except Err Unit :=
  let one (v : Bytes) : Except Err Unit :=
    if !toStrOk v then .error (valueErr i) else if parses ext ty v then .ok () else .error (valueErr i)
  match dec with
  | .opt => match vals with
    | [] => .ok ()
    | [v] => one v
    | _ => .error (cardErr vals.length)
  | _ => match vals with
    | [v] => one v
    | _ => .error (cardErr vals.length)

def stripPrefix (p s : Bytes) : Option Bytes := if p.isPrefixOf s then some (s.drop p.length) else none

/-- `parse_auth_inner`: every failure is PERMISSION_DENIED with a cause flagged safe (constant messages) -/
def decodeAuth (pfx : Bytes) (vals : List Bytes) : Except Err Unit :=
  let deny : Err := { code := .permissionDenied, causeSafe := true, cause := .const }
  match vals with
  | [] => .error deny
  | v :: _ =>
    if !toStrOk v then .error deny else
    match stripPrefix pfx v with
    | none => .error deny
    | some t => if Token.isValid t then .ok () else .error deny

def bodySafeErr : Err := { code := .invalidArgument, causeSafe := true, cause := .const }

def decodeStdBody (i : Nat) (ct : CtClass) (p : Payload) : Except Err Unit :=
  match ct with
  | .json | .smile => match p with
    | .ok => .ok ()
    | .toolarge => .error bodySafeErr
    | .malformed => .error (valueErr i)
  | _ => .error bodySafeErr

def decodeBody (i : Nat) (dec : Dec) (ct : CtClass) (p : Payload) : Except Err Unit :=
  match dec with
  | .optional => if ct == .absent then .ok () else decodeStdBody i ct p
  | .binary => if ct == .octet then .ok () else .error bodySafeErr
  | _ => decodeStdBody i ct p

def headerVals (r : Request) (name : Bytes) : List Bytes := (r.headers.filter (fun h => h.1 == name)).map (·.2)

def queryVals (r : Request) (key : Bytes) : List Bytes :=
  match r.query with
  | none => []
  | some q => ((Uri.parseQuery q).filter (fun kv => kv.1 == key)).map (·.2)

def authorization : Bytes := [97, 117, 116, 104, 111, 114, 105, 122, 97, 116, 105, 111, 110]
def cookie : Bytes := [99, 111, 111, 107, 105, 101]
def bearer : Bytes := [66, 101, 97, 114, 101, 114, 32]

def decodeArg (r : Request) (i : Nat) (a : ArgSpec) : Except Err Unit :=
  let ext : Bytes → Bool := fun t => (r.dbl.lookup t).getD false
  let named (e : Except Err Unit) : Except Err Unit :=
    match e with
    | .ok u => .ok u
    | .error e => .error { e with param := reportedName a }
  match a.kind with
  | .path => named (decodeParam ext i a.dec a.ty (Uri.pathParam ((r.pathParams.lookup a.name).getD [])))
  | .query => named (decodeParam ext i a.dec a.ty (queryVals r a.name))
  | .header => named (decodeHeader ext i a.dec a.ty (headerVals r a.name))
  | .auth => decodeAuth bearer (headerVals r authorization)
  | .cookie => decodeAuth a.name (headerVals r cookie)
  | .body => named (decodeBody i a.dec r.ct r.payload)
  | .context => .ok ()

structure Outcome where
  /-- `none`: every argument decoded and the handler ran (exactly once) -/
  error : Option Err
  /-- entries of the response's `SafeParams`: key and the argument whose value was stored -/
  logged : List (Bytes × Nat)
deriving Repr

def run (r : Request) : Nat → List ArgSpec → List (Bytes × Nat) → Outcome
  | _, [], logged => { error := none, logged := logged }
  | i, a :: rest, logged =>
    match decodeArg r i a with
    | .error e => { error := some e, logged := logged }
    | .ok () => run r (i + 1) rest (if a.safe then logged ++ [(safeKey a, i)] else logged)

def handleReq (args : List ArgSpec) (r : Request) : Outcome := run r 0 args []

/-! ### line protocol -/
def rdKind : String → Option Kind
  | "path" => some .path | "query" => some .query | "header" => some .header | "auth" => some .auth
  | "cookie" => some .cookie | "body" => some .body | "context" => some .context | _ => none
def rdDec : String → Option Dec
  | "one" => some .one | "opt" => some .opt | "seq" => some .seq | "std" => some .std
  | "optional" => some .optional | "binary" => some .binary | _ => none
def rdTy : String → Option PTy
  | "str" => some .str | "int" => some .int | "bool" => some .bool | "uuid" => some .uuid | "rid" => some .rid
  | "token" => some .token | "safelong" => some .safelong | "datetime" => some .datetime | "double" => some .double
  | "enum" => some .enum | "none" => some .str | _ => none
def rdCt : String → Option CtClass
  | "absent" => some .absent | "nontext" => some .nontext | "unparsable" => some .unparsable | "other" => some .other
  | "json" => some .json | "smile" => some .smile | "octet" => some .octet | _ => none
def rdPayload : String → Option Payload
  | "ok" => some .ok | "malformed" => some .malformed | "toolarge" => some .toolarge | _ => none

def rdArg : Sexp → Option ArgSpec
  | .list [.atom "a", .atom k, .atom d, .atom t, .atom n, .atom l, .atom id, .atom s] =>
    match rdKind k, rdDec d, rdTy t, Hex.unhex n, Hex.unhex l, Hex.unhex id with
    | some k, some d, some t, some n, some l, some id => some { kind := k, dec := d, ty := t, name := n, logName := l, ident := id, safe := s == "1" }
    | _, _, _, _, _, _ => none
  | _ => none

def rdAll {α : Type} (f : Sexp → Option α) : List Sexp → Option (List α)
  | [] => some []
  | x :: xs => match f x, rdAll f xs with
    | some y, some ys => some (y :: ys)
    | _, _ => none

def rdPair (tag : String) : Sexp → Option (Bytes × Bytes)
  | .list [.atom t, .atom a, .atom b] => if t == tag then
      match Hex.unhex a, Hex.unhex b with
      | some a, some b => some (a, b)
      | _, _ => none
    else none
  | _ => none

def rdDbl : Sexp → Option (Bytes × Bool)
  | .list [.atom "d", .atom a, .atom b] => (Hex.unhex a).map (fun a => (a, b == "1"))
  | _ => none

def rdReq : Sexp → Option Request
  | .list [.atom "req", .list (.atom "pp" :: pps), .list [.atom "q", .atom q], .list (.atom "h" :: hs),
      .list [.atom "b", .atom ct, .atom pl], .list (.atom "dv" :: ds)] =>
    match rdAll (rdPair "p") pps, rdAll (rdPair "x") hs, rdCt ct, rdPayload pl, rdAll rdDbl ds with
    | some pps, some hs, some ct, some pl, some ds =>
      let query : Option (Option Bytes) := if q == "none" then some none else (Hex.unhex q).map some
      query.map (fun q => { pathParams := pps, query := q, headers := hs, ct := ct, payload := pl, dbl := ds })
    | _, _, _, _, _ => none
  | _ => none

def showCode : Code → String
  | .invalidArgument => "INVALID_ARGUMENT" | .permissionDenied => "PERMISSION_DENIED"

/-- keys are printed sorted (the real `SafeParams` is a hash map) -/
def showKeys (ks : List Bytes) : String :=
  if ks.isEmpty then "-" else ",".intercalate ((ks.map Hex.hex).toArray.qsort (· < ·)).toList

def showOutcome (o : Outcome) : String :=
  let logged := showKeys (o.logged.map (·.1))
  match o.error with
  | none => s!"ok handler=1 logged={logged}"
  | some e =>
    let actual := match e.actual with | some n => toString n | none => "-"
    let param := match e.param with | some p => Hex.hex p | none => "-"
    s!"err code={showCode e.code} causesafe={if e.causeSafe then 1 else 0} actual={actual} param={param} handler=0 logged={logged}"

def handle : List String → String
  | ["ep", spec, req] =>
    match parse spec, (parse req).bind rdReq with
    | some (.list (.atom "args" :: as)), some r =>
      (match rdAll rdArg as with
        | some args => showOutcome (handleReq args r)
        | none => "bad-op")
    | _, _ => "bad-op"
  | ["noop"] => "noop"
  | _ => "bad-op"

end ConjureVerif.Endpoint
