import ConjureVerif.Model.Endpoint
import ConjureVerif.Model.Body
import ConjureVerif.Lemmas.UriReq
/-
Model of a generated (or macro-derived) *client method* up to `Client::send`, of the router's hand-over to the
endpoint, and of the server's response serializers — so that a client call can be composed with the endpoint
model (Model/Endpoint.lean) and the client's `decode_*_response` functions (Model/Body.lean).

Argument values are represented by their PLAIN texts (C12 proves text ↦ value is a bijection on each type), a
`list`/`set` argument by the list of its items' texts in iteration order.
-/
namespace ConjureVerif.Call
open ConjureVerif ConjureVerif.Endpoint ConjureVerif.Uri

/-- a segment of the endpoint's path template -/
inductive TSeg
  | lit (s : Bytes)
  | param (name : Bytes)
deriving Repr

/-- an argument together with the value(s) the caller supplies, as PLAIN texts:
`one` ↦ `[t]`, `opt` ↦ `[]`/`[t]`, `seq` ↦ any list; auth ↦ `[token]` -/
structure CArg where
  spec : ArgSpec
  texts : List Bytes
deriving Repr

/-- the text of the path parameter called `name` -/
def pathText (args : List CArg) (name : Bytes) : Bytes :=
  match args.find? (fun a => a.spec.kind == .path && a.spec.name == name) with
  | some a => a.texts.headD []
  | none => []

def queryPairs (args : List CArg) : List (Bytes × Bytes) :=
  (args.filter (fun a => a.spec.kind == .query)).flatMap (fun a => a.texts.map (fun t => (a.spec.name, t)))

/-- what the client method pushes into its `UriBuilder`: template segments in order (parameters by their text),
then one query pair per supplied value, argument by argument -/
def uriReq (tmpl : List TSeg) (args : List CArg) : Uri.Req :=
  { segs := tmpl.map (fun s => match s with
      | .lit s => Seg.lit s
      | .param n => Seg.param (pathText args n)),
    query := queryPairs args }

def uriBytes (tbl : List Nat) (tmpl : List TSeg) (args : List CArg) : Bytes :=
  buildBuf tbl ((uriReq tmpl args).pushes tbl)

/-- `HeaderValue::from_maybe_shared`: a byte is legal iff it is a tab or ≥ 32 and not DEL -/
def headerByteOk (b : Nat) : Bool := b == 9 || (32 ≤ b && b != 127)
def headerValueOk (v : Bytes) : Bool := v.all headerByteOk

/-- `encode_header` / `encode_optional_header` / `encode_header_auth` / `encode_cookie_auth`, argument by argument;
`none`: the client refuses the call (`Error::internal_safe`) -/
def clientHeaders : List CArg → Option (List (Bytes × Bytes))
  | [] => some []
  | a :: rest =>
    match a.spec.kind with
    | .header =>
      if a.texts.all headerValueOk then (clientHeaders rest).map (fun hs => a.texts.map (fun t => (a.spec.name, t)) ++ hs)
      else none
    | .auth => (clientHeaders rest).map (fun hs => (authorization, bearer ++ a.texts.headD []) :: hs)
    | .cookie => (clientHeaders rest).map (fun hs => (cookie, a.spec.name ++ a.texts.headD []) :: hs)
    | _ => clientHeaders rest

/-- the router: template segments against the raw segments of the request path; parameters get the raw text -/
def route : List TSeg → List Bytes → Option (List (Bytes × Bytes))
  | [], [] => some []
  | .lit s :: ts, r :: rs => if s == r then route ts rs else none
  | .param n :: ts, r :: rs => (route ts rs).map (fun ps => (n, r) :: ps)
  | _, _ => none

/-- the request the endpoint sees for a client call (body classification supplied separately) -/
def serverRequest (tbl : List Nat) (tmpl : List TSeg) (args : List CArg) (ct : CtClass) (payload : Payload)
    (dbl : List (Bytes × Bool)) : Option Request :=
  match clientHeaders args, route tmpl (rawSegments (uriBytes tbl tmpl args)) with
  | some hs, some pps =>
    some { pathParams := pps, query := queryOf (uriBytes tbl tmpl args), headers := hs, ct := ct, payload := payload, dbl := dbl }
  | _, _ => none

/-! ### the way back: response serializers (conjure-http/src/server/{mod,conjure}.rs) -/

inductive Produces
  | empty | std | collection | binary | optBinary
deriving DecidableEq, Repr

/-- what the handler returned: `unit`; a serializable value (its JSON document, whether it equals `T::default()`);
a byte stream; or an absent optional stream -/
inductive Ret
  | unit
  | value (isDefault : Bool) (json : Bytes)
  | stream (bytes : Bytes)
  | noStream
deriving DecidableEq, Repr

inductive RCt
  | none | json | octet | smile
deriving DecidableEq, Repr

/-- the registered response encodings (`ConjureRuntime::new`: JSON, then Smile) -/
inductive Enc
  | json | smile
deriving DecidableEq, Repr

/-- `Encoding::content_type` -/
def Enc.ct : Enc → RCt
  | .json => .json
  | .smile => .smile

structure Resp where
  status204 : Bool
  ct : RCt
  body : Bytes
deriving DecidableEq, Repr

/-- the response for a request whose `Accept` selects JSON (what every generated client sends) -/
def respond : Produces → Ret → Option Resp
  | .empty, .unit => some { status204 := true, ct := .none, body := [] }
  | .std, .value _ j => some { status204 := false, ct := .json, body := j }
  | .collection, .value d j => if d then some { status204 := true, ct := .none, body := [] } else some { status204 := false, ct := .json, body := j }
  | .binary, .stream b => some { status204 := false, ct := .octet, body := b }
  | .optBinary, .stream b => some { status204 := false, ct := .octet, body := b }
  | .optBinary, .noStream => some { status204 := true, ct := .none, body := [] }
  | _, _ => none

/-- `StdResponseSerializer` / `CollectionResponseSerializer` for a request whose `Accept` the runtime negotiated
to the encoding `e` (C11): the body is the value's document in `e`, labelled with `e`'s own content type; an
empty collection or absent optional travels as 204 with no body under every encoding -/
def respondIn (e : Enc) (p : Produces) (isDefault : Bool) (doc : Enc → Bytes) : Option Resp :=
  match p with
  | .std => some { status204 := false, ct := e.ct, body := doc e }
  | .collection =>
    if isDefault then some { status204 := true, ct := .none, body := [] }
    else some { status204 := false, ct := e.ct, body := doc e }
  | _ => none

/-- a client that asked for either encoding reads the response by the Content-Type it declares (the repository's
own clients ask for JSON only; a `#[conjure_client]` method may name any `DeserializeResponse`) -/
def readByCt (r : Resp) (chunks : List Body.Chunk) (parse : Enc → Bytes → Body.Parse) : Body.ClientResult :=
  if r.status204 then .default_
  else match r.ct with
    | .json => Body.decodeSerializable true chunks (parse .json)
    | .smile => Body.decodeSerializable true chunks (parse .smile)
    | _ => .error

/-- which `decode_*_response` the generated client calls for a return type -/
def clientKind : Produces → Body.Kind
  | .empty => .empty
  | .std => .serializable
  | .collection => .defaultSerializable
  | .binary => .binary
  | .optBinary => .optionalBinary

def clientDecode (p : Produces) (r : Resp) (chunks : List Body.Chunk) (parse : Bytes → Body.Parse) : Body.ClientResult :=
  Body.decodeResponse (clientKind p) r.status204 (r.ct == .json) (r.ct == .octet) chunks parse

/-! ### line protocol: the request a client method produces
`call <tmpl> <args> <extra>`: tmpl = `(t,(l,<hex>)|(p,<hex>)…)`, args = `(cargs,(c,<argspec>,(v,<hex>…))…)`,
extra = `(x,<bodykind>,<bodylen>,<accept>)` with bodykind none|json|octet, accept json|octet -/
open ConjureVerif.Sexp

def rdSeg : Sexp → Option TSeg
  | .list [.atom "l", .atom h] => (Hex.unhex h).map TSeg.lit
  | .list [.atom "p", .atom h] => (Hex.unhex h).map TSeg.param
  | _ => none

def rdHexes : List Sexp → Option (List Bytes)
  | [] => some []
  | .atom h :: r => match Hex.unhex h, rdHexes r with
    | some b, some bs => some (b :: bs)
    | _, _ => none
  | _ => none

def rdCArg : Sexp → Option CArg
  | .list [.atom "c", a, .list (.atom "v" :: vs)] =>
    match rdArg a, rdHexes vs with
    | some a, some vs => some { spec := a, texts := vs }
    | _, _ => none
  | _ => none

def ascii (s : String) : Bytes := s.toUTF8.toList.map (·.toNat)

def showHeaders (hs : List (Bytes × Bytes)) : String :=
  let items := hs.map (fun h => Hex.hex h.1 ++ ":" ++ Hex.hex h.2)
  if items.isEmpty then "-" else ",".intercalate (items.toArray.qsort (· < ·)).toList

def handle : List String → String
  | ["call", tmpl, args, extra] =>
    match parse tmpl, parse args, parse extra with
    | some (.list (.atom "t" :: ts)), some (.list (.atom "cargs" :: cs)),
        some (.list [.atom "x", .atom bk, .atom blen, .atom acc]) =>
      (match rdAll rdSeg ts, rdAll rdCArg cs with
        | some tmpl, some args =>
          (match clientHeaders args with
            | none => "client-error"
            | some hs =>
              let body : List (Bytes × Bytes) :=
                if bk == "json" then [(ascii "content-type", ascii "application/json"), (ascii "content-length", ascii blen)]
                else if bk == "octet" then [(ascii "content-type", ascii "application/octet-stream")] else []
              let accept := [(ascii "accept", ascii (if acc == "octet" then "application/octet-stream" else "application/json"))]
              match build Gen.Uri.component ((uriReq tmpl args).pushes Gen.Uri.component) with
              | .panic => "panic"
              | .uri u => s!"uri={Hex.hex u} headers={showHeaders (hs ++ body ++ accept)}")
        | _, _ => "bad-op")
    | _, _, _ => "bad-op"
  | ["resp", enc, prod, dflt] =>
    -- status and Content-Type of a serializable response negotiated to `enc`
    let e? : Option Enc := if enc == "json" then some .json else if enc == "smile" then some .smile else none
    let p? : Option Produces := if prod == "std" then some .std else if prod == "collection" then some .collection else none
    match e?, p? with
    | some e, some p =>
      (match respondIn e p (dflt == "1") (fun _ => []) with
        | some r => (if r.status204 then "204 " else "200 ") ++
            (match r.ct with | .none => "none" | .json => "application/json" | .octet => "application/octet-stream" | .smile => "application/x-jackson-smile")
        | none => "bad-op")
    | _, _ => "bad-op"
  | ["noop"] => "noop"
  | _ => "bad-op"

end ConjureVerif.Call
