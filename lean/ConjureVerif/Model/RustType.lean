import ConjureVerif.Model.Sexp
/-
Model of the Rust type the generator writes for a Conjure type (conjure-codegen/src/context.rs `rust_type`,
`rust_type_inner`): the shape, and for doubles whether the plain `f64` or the ordered wrapper `DoubleKey` — the latter
wherever the value sits in a position that must be totally ordered (below a set item or a map key).
-/
namespace ConjureVerif.RustType

inductive Prim
  | string | datetime | integer | double | safelong | binary | any | boolean | uuid | rid | bearertoken
deriving DecidableEq, Repr

inductive CTy
  | prim (p : Prim)
  | optional (t : CTy)
  | list (t : CTy)
  | set (t : CTy)
  | map (k v : CTy)
  | ref (name : String)
  | ext (fallback : CTy)
deriving Repr

inductive RTy
  | f64
  | doubleKey
  | leaf (name : String)          -- a type with a total order of its own: String, i32, SafeLong, …, and every generated type
  | option (t : RTy)
  | vec (t : RTy)
  | set (t : RTy)
  | map (k v : RTy)
deriving DecidableEq, Repr

def primName : Prim → String
  | .string => "String" | .datetime => "DateTime<Utc>" | .integer => "i32" | .double => "f64"
  | .safelong => "SafeLong" | .binary => "Bytes" | .any => "Any" | .boolean => "bool" | .uuid => "Uuid"
  | .rid => "ResourceIdentifier" | .bearertoken => "BearerToken"

/-- `rust_type_inner(this_type, def, key)` -/
def rustType (key : Bool) : CTy → RTy
  | .prim .double => if key then .doubleKey else .f64
  | .prim p => .leaf (primName p)
  | .optional t => .option (rustType key t)
  | .list t => .vec (rustType key t)
  | .set t => .set (rustType true t)
  | .map k v => .map (rustType true k) (rustType key v)
  | .ref n => .leaf n
  | .ext fb => rustType key fb

/-- `T: Ord` as the standard library and the runtime crates provide it: `f64` is not, `DoubleKey` and the other leaves
are, containers are when their parameters are -/
def ordOk : RTy → Bool
  | .f64 => false
  | .doubleKey => true
  | .leaf _ => true
  | .option t => ordOk t
  | .vec t => ordOk t
  | .set t => ordOk t
  | .map k v => ordOk k && ordOk v

/-- the type can be used at all: every set item and every map key, at any depth, is `Ord` (what `BTreeSet<T>` /
`BTreeMap<K, _>` demand for insertion, deserialization and comparison) -/
def usable : RTy → Bool
  | .option t => usable t
  | .vec t => usable t
  | .set t => ordOk t && usable t
  | .map k v => ordOk k && usable k && usable v
  | _ => true

/-- `is_double`: whether a field gets the `DoubleOps` methods for its comparison, equality and hash (a reference
is a type of its own, with its own order) -/
def isDouble : CTy → Bool
  | .prim .double => true
  | .prim _ => false
  | .optional t => isDouble t
  | .list t => isDouble t
  | .set _ => false
  | .map _ v => isDouble v
  | .ref _ => false
  | .ext fb => isDouble fb

/-- the types `DoubleOps` is implemented for: `f64`, and `Option`, `Vec` and the values of a `BTreeMap` of such -/
def doubleOpsOk : RTy → Bool
  | .f64 => true
  | .option t => doubleOpsOk t
  | .vec t => doubleOpsOk t
  | .map _ v => doubleOpsOk v
  | _ => false

/-- `BuilderItemConfig`: what one setter call of the staged builder takes for an element of a collection field -/
inductive ItemCfg
  | normal (t : RTy)                 -- `type = T`
  | into (t : RTy)                   -- `type = T, into`
  | serialize                        -- `impl Serialize`, stored as an `Any`
  | collectSeq (item : RTy)          -- `impl IntoIterator<Item = X>`, `.collect()`
  | collectMap (k v : RTy)           -- `impl IntoIterator<Item = (K, V)>`, `.collect()`
deriving DecidableEq, Repr

/-- `builder_item_config(this_type, def, key)` -/
def builderItem (key : Bool) : CTy → ItemCfg
  | .prim .string => .into (.leaf "String")
  | .prim .binary => .into (.leaf "Bytes")
  | .prim .any => .serialize
  | .prim p => .normal (rustType key (.prim p))
  | .optional t => .into (.option (rustType key t))
  | .list t => .collectSeq (rustType key t)
  | .set t => .collectSeq (rustType true t)
  | .map k v => .collectMap (rustType true k) (rustType key v)
  | .ref n => .normal (.leaf n)
  | .ext fb => builderItem key fb

/-- what the setter stores is an element of the field: `E` is the element type the field's Rust type prescribes -/
def fits : ItemCfg → RTy → Bool
  | .normal t, e => e == t
  | .into t, e => e == t
  | .serialize, e => e == .leaf "Any"
  | .collectSeq x, e => e == .vec x || e == .set x
  | .collectMap k v, e => e == .map k v

/-- `BuilderConfig` of a field, as far as it names element types -/
inductive FieldCfg
  | list (item : ItemCfg)
  | set (item : ItemCfg)
  | map (key value : ItemCfg)
  | other
deriving DecidableEq, Repr

/-- `builder_config(this_type, def)` -/
def builderField : CTy → FieldCfg
  | .list t => .list (builderItem false t)
  | .set t => .set (builderItem true t)
  | .map k v => .map (builderItem true k) (builderItem false v)
  | .ext fb => builderField fb
  | _ => .other

def render : RTy → String
  | .f64 => "f64"
  | .doubleKey => "DoubleKey"
  | .leaf n => n
  | .option t => "Option<" ++ render t ++ ">"
  | .vec t => "Vec<" ++ render t ++ ">"
  | .set t => "BTreeSet<" ++ render t ++ ">"
  | .map k v => "BTreeMap<" ++ render k ++ "," ++ render v ++ ">"

/-! ### line protocol: `rusttype <ty>` with `<ty>` = `(p,<PRIM>)`, `(opt,t)`, `(list,t)`, `(set,t)`, `(map,k,v)`,
`(r,<Name>)`, `(x,t)` -/
open ConjureVerif.Sexp

def rdPrim : String → Option Prim
  | "STRING" => some .string | "DATETIME" => some .datetime | "INTEGER" => some .integer | "DOUBLE" => some .double
  | "SAFELONG" => some .safelong | "BINARY" => some .binary | "ANY" => some .any | "BOOLEAN" => some .boolean
  | "UUID" => some .uuid | "RID" => some .rid | "BEARERTOKEN" => some .bearertoken | _ => none

def rdTy : Nat → Sexp → Option CTy
  | 0, _ => none
  | _ + 1, .list [.atom "p", .atom p] => (rdPrim p).map .prim
  | f + 1, .list [.atom "opt", t] => (rdTy f t).map .optional
  | f + 1, .list [.atom "list", t] => (rdTy f t).map .list
  | f + 1, .list [.atom "set", t] => (rdTy f t).map .set
  | f + 1, .list [.atom "map", k, v] => match rdTy f k, rdTy f v with
    | some k, some v => some (.map k v)
    | _, _ => none
  | _ + 1, .list [.atom "r", .atom n] => some (.ref n)
  | f + 1, .list [.atom "x", t] => (rdTy f t).map .ext
  | _, _ => none

def renderItem : ItemCfg → String
  | .normal t => render t
  | .into t => render t ++ ",into"
  | .serialize => "Serialize"
  | .collectSeq x => "Iter<" ++ render x ++ ">"
  | .collectMap k v => "Iter<(" ++ render k ++ "," ++ render v ++ ")>"

def renderField : FieldCfg → String
  | .list i => "list:" ++ renderItem i
  | .set i => "set:" ++ renderItem i
  | .map k v => "map:" ++ renderItem k ++ ";" ++ renderItem v
  | .other => "-"

def handle : List String → String
  | ["builder", t] =>
    match parse t with
    | some s => match rdTy 64 s with
      | some t => renderField (builderField t)
      | none => "bad-op"
    | none => "bad-op"
  | ["rusttype", t] =>
    match parse t with
    | some s => match rdTy 64 s with
      | some t => render (rustType false t) ++ (if isDouble t then " double-ops" else "")
      | none => "bad-op"
    | none => "bad-op"
  | _ => "bad-op"

end ConjureVerif.RustType
