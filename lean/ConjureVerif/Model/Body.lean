import ConjureVerif.Model.Hex
/-
Model of body handling: `private::read_body` / `async_read_body` (conjure-http/src/private/mod.rs),
the server's `StdRequestDeserializer` / `OptionalRequestDeserializer` / `BinaryRequestDeserializer`
and the client's `decode_*_response` functions (conjure-http/src/private/client/mod.rs).

The byte-level document syntax (serde_json / serde-smile) is not modelled: the verdict of the
deserializer on a complete buffer is a parameter `parse : List Nat → Parse`.
-/
namespace ConjureVerif.Body

/-- one item of the body stream -/
inductive Chunk
  | ok (bs : List Nat)
  | err (e : Nat)
deriving DecidableEq, Repr

inductive Read
  | ok (bs : List Nat)
  | err (e : Nat)
  | tooLarge
deriving DecidableEq, Repr

/-- `check_limit` passes -/
def within (limit : Option Nat) (n : Nat) : Bool :=
  match limit with
  | none => true
  | some l => decide (n ≤ l)

/-- the `for bytes in body` loop -/
def readLoop (limit : Option Nat) (buf : List Nat) : List Chunk → Read
  | [] => .ok buf
  | .err e :: _ => .err e
  | .ok b :: rest => if within limit (buf ++ b).length then readLoop limit (buf ++ b) rest else .tooLarge

/-- `read_body`: three paths — no chunk, one chunk (returned without copying), two or more -/
def readBody (limit : Option Nat) : List Chunk → Read
  | [] => .ok []
  | .err e :: _ => .err e
  | .ok first :: rest =>
    if !within limit first.length then .tooLarge
    else match rest with
      | [] => .ok first
      | .err e :: _ => .err e
      | .ok second :: rest' =>
        if !within limit (first ++ second).length then .tooLarge
        else readLoop limit (first ++ second) rest'

/-- what the typed deserializer says about a complete buffer -/
inductive Parse
  | value (v : Nat) (restInsignificant : Bool)   -- one document of the type; is the remainder insignificant?
  | invalid
deriving DecidableEq, Repr

inductive Outcome
  | handler (v : Option Nat)     -- the handler runs with this body value (`none` = absent optional)
  | invalidArgument
  | streamError (e : Nat)
deriving DecidableEq, Repr

/-- deserialization result: a value only when the remainder is insignificant (`end()` check) -/
def Outcome.ofParse : Parse → Outcome
  | .value v true => .handler (some v)
  | .value _ false => .invalidArgument
  | .invalid => .invalidArgument

/-- `StdRequestDeserializer::<N>::deserialize` -/
def stdDeserialize (encOk : Bool) (limit : Nat) (chunks : List Chunk) (parse : List Nat → Parse) : Outcome :=
  if !encOk then .invalidArgument
  else match readBody (some limit) chunks with
    | .err e => .streamError e
    | .tooLarge => .invalidArgument
    | .ok buf => Outcome.ofParse (parse buf)

/-- `OptionalRequestDeserializer::deserialize` -/
def optionalDeserialize (hasContentType encOk : Bool) (limit : Nat) (chunks : List Chunk)
    (parse : List Nat → Parse) : Outcome :=
  if !hasContentType then .handler none else stdDeserialize encOk limit chunks parse

/-! ### client side -/

inductive Kind
  | empty | serializable | defaultSerializable | binary | optionalBinary
deriving DecidableEq, Repr

inductive ClientResult
  | unit                 -- `()`
  | value (v : Nat)
  | default_             -- `T::default()` / `None`
  | stream               -- the body stream itself is handed to the caller
  | error
  | streamError (e : Nat)
deriving DecidableEq, Repr

/-- `json::client_from_slice`: a value only from one document followed by whitespace -/
def ClientResult.ofParse : Parse → ClientResult
  | .value v true => .value v
  | _ => .error

/-- `decode_serializable_response` -/
def decodeSerializable (ctJson : Bool) (chunks : List Chunk) (parse : List Nat → Parse) : ClientResult :=
  if !ctJson then .error
  else match readBody none chunks with
    | .err e => .streamError e
    | .tooLarge => .error
    | .ok buf => ClientResult.ofParse (parse buf)

/-- the five `decode_*_response` functions -/
def decodeResponse (k : Kind) (status204 ctJson ctOctet : Bool) (chunks : List Chunk)
    (parse : List Nat → Parse) : ClientResult :=
  match k with
  | .empty =>
    if status204 then .unit
    else match decodeSerializable ctJson chunks parse with
      | .value _ => .unit
      | r => r
  | .serializable => decodeSerializable ctJson chunks parse
  | .defaultSerializable => if status204 then .default_ else decodeSerializable ctJson chunks parse
  | .binary => if ctOctet then .stream else .error
  | .optionalBinary => if status204 then .default_ else if ctOctet then .stream else .error

/-! ### line protocol
chunks: `<hex>` or `!<n>` joined by `,` (or `-` for none); parse verdict for the joined buffer:
`v<n>:1`, `v<n>:0` or `x`. -/
open ConjureVerif.Hex

def parseChunks (s : String) : Option (List Chunk) :=
  if s == "-" then some [] else
  (s.splitOn ",").foldr (fun t acc =>
    let c : Option Chunk :=
      if t.startsWith "!" then (t.drop 1).toNat?.map Chunk.err else (unhex t).map Chunk.ok
    match c, acc with
    | some c, some l => some (c :: l)
    | _, _ => none) (some [])

def parseVerdict (s : String) : Option Parse :=
  if s == "x" then some .invalid
  else match (s.drop 1).toString.splitOn ":" with
    | [n, b] => n.toNat?.map (fun n => Parse.value n (b == "1"))
    | _ => none

def showOutcome : Outcome → String
  | .handler (some v) => s!"handler {v}"
  | .handler none => "handler absent"
  | .invalidArgument => "invalid"
  | .streamError e => s!"stream {e}"

def showClient : ClientResult → String
  | .unit => "unit" | .value v => s!"value {v}" | .default_ => "default" | .stream => "stream"
  | .error => "error" | .streamError e => s!"stream {e}"

def showRead : Read → String
  | .ok b => "ok " ++ hex b | .err e => s!"err {e}" | .tooLarge => "toolarge"

def parseKind : String → Option Kind
  | "empty" => some .empty | "ser" => some .serializable | "defser" => some .defaultSerializable
  | "bin" => some .binary | "optbin" => some .optionalBinary | _ => none

def handle : List String → String
  | ["read", lim, cs] =>
    let limit : Option (Option Nat) := if lim == "none" then some none else lim.toNat?.map some
    match limit, parseChunks cs with
    | some l, some cs => showRead (readBody l cs)
    | _, _ => "bad-op"
  | ["std", enc, lim, cs, verdict] =>
    match lim.toNat?, parseChunks cs, parseVerdict verdict with
    | some l, some cs, some p => showOutcome (stdDeserialize (enc == "1") l cs (fun _ => p))
    | _, _, _ => "bad-op"
  | ["opt", hasct, enc, lim, cs, verdict] =>
    match lim.toNat?, parseChunks cs, parseVerdict verdict with
    | some l, some cs, some p => showOutcome (optionalDeserialize (hasct == "1") (enc == "1") l cs (fun _ => p))
    | _, _, _ => "bad-op"
  | ["resp", kind, s204, ctj, cto, cs, verdict] =>
    match parseKind kind, parseChunks cs, parseVerdict verdict with
    | some k, some cs, some p => showClient (decodeResponse k (s204 == "1") (ctj == "1") (cto == "1") cs (fun _ => p))
    | _, _, _ => "bad-op"
  | _ => "bad-op"

end ConjureVerif.Body
