/-
L1: the serde data model that conjure-serde's wrappers walk, as mutual inductives (so recursion and
induction are structural): types `Ty`, values `Val`, and the document tree `Doc` that both the JSON
and the Smile back ends produce after tokenisation.
-/
namespace ConjureVerif.Data

/-- a double up to NaN payload; a finite value is identified by its IEEE-754 bit pattern -/
inductive Dbl
  | nan | posInf | negInf
  | fin (bits : Nat)
deriving DecidableEq, Repr

/-- Rust integer types reachable through serde: (signed, bits) -/
structure IntW where
  signed : Bool
  bits : Nat
deriving DecidableEq, Repr

def IntW.contains (w : IntW) (n : Int) : Bool :=
  if w.signed then decide (-(2 ^ (w.bits - 1) : Int) ≤ n ∧ n < (2 ^ (w.bits - 1) : Int))
  else decide (0 ≤ n ∧ n < (2 ^ w.bits : Int))

inductive VKind
  | unit | newtype | tuple | struct
deriving DecidableEq, Repr

mutual
  inductive Ty
    | bool | int (w : IntW) | f64 | f32 | str | bytes | unit
    | uuid          -- a type whose serde form depends on `is_human_readable()`: text in JSON, 16 raw bytes in Smile
    | option (t : Ty) | seq (t : Ty) | tuple (ts : Tys) | map (k v : Ty)
    | unitStruct | newtype (t : Ty) | tupleStruct (ts : Tys) | struct (fs : Fields)
    | enum (vs : Variants)
  inductive Tys
    | nil | cons (t : Ty) (ts : Tys)
  /-- struct fields: name (bytes) and type -/
  inductive Fields
    | nil | cons (name : List Nat) (t : Ty) (fs : Fields)
  /-- enum variants: name, kind, payload type (`unit`, the inner type, a `tuple`, or a `struct`) -/
  inductive Variants
    | nil | cons (name : List Nat) (kind : VKind) (payload : Ty) (vs : Variants)
end

mutual
  inductive Val
    | bool (b : Bool) | int (n : Int) | f64 (d : Dbl) | f32 (d : Dbl) | str (s : List Nat)
    | bytes (bs : List Nat) | unit | uuid (bs : List Nat)
    | none | some (v : Val) | seq (vs : Vals) | tuple (vs : Vals) | map (es : Entries)
    | unitStruct | newtype (v : Val) | tupleStruct (vs : Vals) | struct (fs : FVals)
    | variant (idx : Nat) (payload : Val)
  inductive Vals
    | nil | cons (v : Val) (vs : Vals)
  inductive Entries
    | nil | cons (k v : Val) (es : Entries)
  /-- struct field values, in declaration order -/
  inductive FVals
    | nil | cons (v : Val) (fs : FVals)
end

/-- an object member name: text, or the (opaque) `Display` text of a finite double -/
inductive Key
  | text (s : List Nat)
  | flt (bits : Nat)
deriving DecidableEq, Repr

mutual
  /-- a document after tokenisation.  JSON never contains `bin` or a non-finite `dbl`; Smile may. -/
  inductive Doc
    | null | bool (b : Bool) | int (n : Int) | dbl (d : Dbl) | str (s : List Nat) | bin (bs : List Nat)
    | arr (xs : Docs) | obj (ms : Members)
  inductive Docs
    | nil | cons (x : Doc) (xs : Docs)
  inductive Members
    | nil | cons (k : Key) (v : Doc) (ms : Members)
end

def Tys.length : Tys → Nat
  | .nil => 0
  | .cons _ ts => ts.length + 1

def Variants.get? : Variants → Nat → Option (List Nat × VKind × Ty)
  | .nil, _ => none
  | .cons n k p _, 0 => some (n, k, p)
  | .cons _ _ _ vs, i + 1 => vs.get? i

def Variants.find? : Variants → List Nat → Nat → Option (Nat × VKind × Ty)
  | .nil, _, _ => none
  | .cons n k p vs, name, i => if n = name then some (i, k, p) else vs.find? name (i + 1)

def Members.lookup : Members → Key → Option Doc
  | .nil, _ => none
  | .cons k v ms, key => if k = key then some v else ms.lookup key

def Members.keys : Members → List Key
  | .nil => []
  | .cons k _ ms => k :: ms.keys

def Fields.names : Fields → List (List Nat)
  | .nil => []
  | .cons n _ fs => n :: fs.names

end ConjureVerif.Data
