import ConjureVerif.Model.Hex
import ConjureVerif.Gen.Token
/-
Model of `BearerToken` validation (conjure-object/src/bearer_token/mod.rs): the 256-entry lookup table
is `Gen.Token.validChars`, re-extracted on every run; `isValid` mirrors `is_valid`.
-/
namespace ConjureVerif.Token

/-- `valid_char`: `VALID_CHARS[b] != 0` -/
def validChar (b : Nat) : Bool := Gen.Token.validChars.getD b 0 != 0

/-- `str::trim_end_matches('=')` on bytes -/
def stripPad (s : List Nat) : List Nat := (s.reverse.dropWhile (· == 61)).reverse

/-- `is_valid` -/
def isValid (s : List Nat) : Bool :=
  let stripped := stripPad s
  !(stripped.isEmpty || !stripped.all validChar)

def handle : List String → String
  | ["token", h] => match Hex.unhex h with
    | some s => if isValid s then "ok " ++ Hex.hex s else "err"
    | none => "bad-op"
  | _ => "bad-op"

end ConjureVerif.Token
