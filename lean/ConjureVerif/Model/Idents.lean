import ConjureVerif.Model.Hex
import ConjureVerif.Gen.Keywords
/-
C03 — identifiers.  `Context::ident_name` turns a Conjure field / argument / endpoint / package-component name into a
Rust identifier: heck's snake_case, then a trailing `_` if the result is in the generator's keyword list.
`Context::type_name`: UpperCamelCase, then `_` if in its list.  The keyword lists of the Rust Reference (editions
2018 and 2021, the editions generated crates and their users compile under) are transcribed here.
-/
namespace ConjureVerif.Idents

/-- strict keywords, editions 2018 / 2021 (Reference, "Keywords") -/
def strictKeywords : List String :=
  ["as", "async", "await", "break", "const", "continue", "crate", "dyn", "else", "enum", "extern", "false", "fn",
   "for", "if", "impl", "in", "let", "loop", "match", "mod", "move", "mut", "pub", "ref", "return", "self", "Self",
   "static", "struct", "super", "trait", "true", "type", "unsafe", "use", "where", "while"]

/-- reserved keywords, editions 2018 / 2021 -/
def reservedKeywords : List String :=
  ["abstract", "become", "box", "do", "final", "macro", "override", "priv", "try", "typeof", "unsized", "virtual", "yield"]

def keywords : List String := strictKeywords ++ reservedKeywords

/-- `ident_name` after snake-casing -/
def identName (escaped : List String) (snake : String) : String :=
  if escaped.contains snake then snake ++ "_" else snake

/-- `type_name` after camel-casing -/
def typeName (escaped : List String) (camel : String) : String :=
  if escaped.contains camel then camel ++ "_" else camel

/-- line protocol: `ident <hex snake>` / `tyident <hex camel>` with the extracted lists -/
def hexStr (h : String) : Option String :=
  (ConjureVerif.Hex.unhex h).bind (fun bs => if bs.all (· < 128) then some (String.ofList (bs.map (fun b => Char.ofNat b))) else none)

end ConjureVerif.Idents

namespace ConjureVerif.Idents
def handle : List String → String
  | ["ident", h] => match hexStr h with
    | some s => identName Gen.Keywords.escaped s
    | none => "bad-op"
  | ["tyident", h] => match hexStr h with
    | some s => typeName Gen.Keywords.typeEscaped s
    | none => "bad-op"
  | _ => "bad-op"
end ConjureVerif.Idents
