import ConjureVerif.Model.Sexp
import ConjureVerif.Model.Idents
/-
What the generator emits for one endpoint (conjure-codegen/src/clients.rs, servers.rs, http_paths.rs and the type
predicates of context.rs), as data: the runtime calls of the client method, in order, and the attributes of the
server trait method.  A type is what the IR says: primitives, optional / list / set / map, references to definitions
(aliases or not) and imported (external) types with their fallback.
-/
namespace ConjureVerif.Emit

abbrev Bytes := List Nat

inductive ITy
  | prim (binary : Bool)
  | optional (t : ITy)
  | list (t : ITy)
  | set (t : ITy)
  | map (k v : ITy)
  | ref (n : Nat)
  | ext (fallback : ITy)
deriving DecidableEq, Repr

/-- a definition is an alias of a type, or an enum / object / union -/
inductive IDef
  | alias (t : ITy)
  | other
deriving DecidableEq, Repr

abbrev Defs := List IDef

/-! ### context.rs: six separately written recursive predicates (fuel bounds the alias chain) -/

/-- `dealiased_type` -/
def dealiased (defs : Defs) : Nat → ITy → ITy
  | 0, t => t
  | fuel + 1, .ref n => match defs[n]? with
    | some (.alias t) => dealiased defs fuel t
    | _ => .ref n
  | fuel + 1, .ext fb => dealiased defs fuel fb
  | _ + 1, t => t

/-- `is_optional`: the item type -/
def isOptional (defs : Defs) : Nat → ITy → Option ITy
  | 0, _ => none
  | _ + 1, .optional t => some t
  | fuel + 1, .ref n => match defs[n]? with
    | some (.alias t) => isOptional defs fuel t
    | _ => none
  | fuel + 1, .ext fb => isOptional defs fuel fb
  | _ + 1, _ => none

def isList (defs : Defs) : Nat → ITy → Bool
  | 0, _ => false
  | _ + 1, .list _ => true
  | fuel + 1, .ref n => match defs[n]? with
    | some (.alias t) => isList defs fuel t
    | _ => false
  | fuel + 1, .ext fb => isList defs fuel fb
  | _ + 1, _ => false

def isSet (defs : Defs) : Nat → ITy → Bool
  | 0, _ => false
  | _ + 1, .set _ => true
  | fuel + 1, .ref n => match defs[n]? with
    | some (.alias t) => isSet defs fuel t
    | _ => false
  | fuel + 1, .ext fb => isSet defs fuel fb
  | _ + 1, _ => false

/-- `is_iterable`: optional, list, set or map -/
def isIterable (defs : Defs) : Nat → ITy → Bool
  | 0, _ => false
  | _ + 1, .optional _ | _ + 1, .list _ | _ + 1, .set _ | _ + 1, .map _ _ => true
  | fuel + 1, .ref n => match defs[n]? with
    | some (.alias t) => isIterable defs fuel t
    | _ => false
  | fuel + 1, .ext fb => isIterable defs fuel fb
  | _ + 1, .prim _ => false

def isBinary (defs : Defs) : Nat → ITy → Bool
  | 0, _ => false
  | _ + 1, .prim b => b
  | fuel + 1, .ref n => match defs[n]? with
    | some (.alias t) => isBinary defs fuel t
    | _ => false
  | fuel + 1, .ext fb => isBinary defs fuel fb
  | _ + 1, _ => false

/-! ### http_paths.rs -/

inductive Seg
  | lit (s : Bytes)
  | param (name : Bytes)
deriving DecidableEq, Repr

def splitOn (sep : Nat) : Bytes → List Bytes
  | [] => [[]]
  | b :: r =>
    if b = sep then [] :: splitOn sep r
    else match splitOn sep r with
      | [] => [[b]]
      | h :: t => (b :: h) :: t

/-- one path segment: `{name}` or `{name:regex}` is a parameter, anything else a literal -/
def segOf (s : Bytes) : Seg :=
  match s with
  | 123 :: r =>
    match r.reverse with
    | 125 :: m => Seg.param ((m.reverse).takeWhile (· ≠ 58))
    | _ => Seg.lit s
  | _ => Seg.lit s

/-- `http_paths::parse`: split at `/`, drop the (empty) first piece -/
def parsePath (p : Bytes) : List Seg := ((splitOn 47 p).drop 1).map segOf

/-! ### the endpoint as the IR gives it -/

inductive PKind
  | path
  | query (id : Bytes)
  | header (id : Bytes)
  | body
deriving DecidableEq, Repr

structure Arg where
  /-- the Conjure argument name -/
  name : Bytes
  /-- its snake_case (heck's business), before keyword escaping -/
  snake : String
  kind : PKind
  ty : ITy
deriving Repr

inductive Auth
  | none | header | cookie (name : Bytes)
deriving DecidableEq, Repr

structure Endpoint where
  method : Bytes
  path : Bytes
  name : Bytes
  auth : Auth
  context : Bool
  returns : Option ITy
  args : List Arg
deriving Repr

/-! ### clients.rs -/

inductive Req | empty | serializable | binary deriving DecidableEq, Repr
inductive Accept | empty | serializable | binary deriving DecidableEq, Repr
inductive Decode | empty | serializable | default_ | binary | optionalBinary deriving DecidableEq, Repr
inductive QPush | one | optional | list | set deriving DecidableEq, Repr

inductive Call
  | req (r : Req) (ident : Option String)
  | lit (s : Bytes)
  | pathParam (ident : Option String)        -- `None`: the template names a parameter that is no path argument
  | query (how : QPush) (key : Bytes) (ident : String)
  | headerAuth
  | cookieAuth (prefix_ : Bytes)
  | header (optional : Bool) (name : Bytes) (ident : String)
  | accept (a : Accept)
  | ext (name path : Bytes)
  | decode (d : Decode)
deriving DecidableEq, Repr

inductive RetClass | none | json (t : ITy) | binary | optionalBinary deriving DecidableEq, Repr

/-- `return_type` (the same function is written out in clients.rs and in servers.rs) -/
def returnType (defs : Defs) (fuel : Nat) : Option ITy → RetClass
  | .none => .none
  | some t =>
    match isOptional defs fuel t with
    | some inner => if isBinary defs fuel inner then .optionalBinary
                    else if isBinary defs fuel t then .binary else .json t
    | none => if isBinary defs fuel t then .binary else .json t

def ident (kw : List String) (a : Arg) : String := Idents.identName kw a.snake

def bodyArg (args : List Arg) : Option Arg := args.find? (fun a => a.kind == .body)

def setupRequest (defs : Defs) (fuel : Nat) (kw : List String) (args : List Arg) : Call :=
  match bodyArg args with
  | some a => if isBinary defs fuel a.ty then .req .binary (some (ident kw a)) else .req .serializable (some (ident kw a))
  | none => .req .empty none

/-- `setup_path_components`: consecutive literals are joined, each with its leading `/` -/
def pathCalls (kw : List String) (args : List Arg) : List Seg → Bytes → List Call
  | [], cur => if cur.isEmpty then [] else [.lit cur]
  | .lit l :: r, cur => pathCalls kw args r (cur ++ 47 :: l)
  | .param n :: r, cur =>
    let p := Call.pathParam ((args.find? (fun a => a.kind == .path && a.name == n)).map (ident kw))
    (if cur.isEmpty then [p] else [.lit cur, p]) ++ pathCalls kw args r []

def queryPush (defs : Defs) (fuel : Nat) (t : ITy) : QPush :=
  if (isOptional defs fuel t).isSome then .optional
  else if isList defs fuel t then .list
  else if isSet defs fuel t then .set
  else .one

def queryCalls (defs : Defs) (fuel : Nat) (kw : List String) (args : List Arg) : List Call :=
  args.filterMap (fun a => match a.kind with
    | .query id => some (.query (queryPush defs fuel a.ty) id (ident kw a))
    | _ => none)

def lower (b : Nat) : Nat := if 65 ≤ b ∧ b ≤ 90 then b + 32 else b

def headerCalls (defs : Defs) (fuel : Nat) (kw : List String) (auth : Auth) (args : List Arg) : List Call :=
  (match auth with
    | .cookie n => [.cookieAuth (n ++ [61])]
    | .header => [.headerAuth]
    | .none => []) ++
  args.filterMap (fun a => match a.kind with
    | .header id => some (.header (isOptional defs fuel a.ty).isSome (id.map lower) (ident kw a))
    | _ => none)

def acceptOf : RetClass → Accept
  | .none => .empty
  | .json _ => .serializable
  | .binary | .optionalBinary => .binary

def decodeOf (defs : Defs) (fuel : Nat) : RetClass → Decode
  | .none => .empty
  | .json t => if isIterable defs fuel t then .default_ else .serializable
  | .binary => .binary
  | .optionalBinary => .optionalBinary

/-- the runtime calls of the generated client method (blocking and async alike), in order -/
def clientCalls (defs : Defs) (fuel : Nat) (kw : List String) (e : Endpoint) : List Call :=
  let ret := returnType defs fuel e.returns
  [setupRequest defs fuel kw e.args] ++ pathCalls kw e.args (parsePath e.path) [] ++
  queryCalls defs fuel kw e.args ++ headerCalls defs fuel kw e.auth e.args ++
  [.accept (acceptOf ret), .ext e.name e.path, .decode (decodeOf defs fuel ret)]

/-! ### servers.rs -/

inductive Produces | std | collection | binary | optionalBinary deriving DecidableEq, Repr

/-- `produces` -/
def produces (defs : Defs) (fuel : Nat) (t : ITy) : Produces :=
  match isOptional defs fuel t with
  | some inner => if isBinary defs fuel inner then .optionalBinary
                  else if isBinary defs fuel t then .binary
                  else if isIterable defs fuel t then .collection else .std
  | none => if isBinary defs fuel t then .binary
            else if isIterable defs fuel t then .collection else .std

/-- the decoder of a path / query / header argument: `FromPlainDecoder`, `FromPlainOptionDecoder` (inside
`FromDecoder<_, dealiased>` when the declared type is an alias or an imported type), `FromPlainSeqDecoder` -/
inductive Dec | one | opt (from_ : Bool) | seq deriving DecidableEq, Repr

/-- the body deserializer: `StdRequestDeserializer`, `OptionalRequestDeserializer` (inside
`FromRequestDeserializer<_, dealiased>` for aliases), `BinaryRequestDeserializer` -/
inductive Deser | std | opt (from_ : Bool) | binary deriving DecidableEq, Repr

inductive SAttr
  | endpoint (method path name : Bytes) (produces : Option Produces)
  | auth (cookie : Option Bytes)
  | path (name : Bytes) (ident : String) (logAs : Option Bytes)
  | query (id : Bytes) (dec : Dec) (ident : String) (logAs : Option Bytes)
  | header (id : Bytes) (dec : Dec) (ident : String) (logAs : Option Bytes)
  | body (deser : Deser) (ident : String) (logAs : Option Bytes)
  | context
deriving DecidableEq, Repr

def strBytes (s : String) : Bytes := s.toUTF8.toList.map (·.toNat)

/-- `log_as` is written exactly when the Rust identifier differs from the declared name -/
def logAs (kw : List String) (a : Arg) : Option Bytes :=
  if strBytes (ident kw a) = a.name then none else some a.name

def optionalDec (defs : Defs) (fuel : Nat) (t : ITy) : Dec := .opt (decide (dealiased defs fuel t ≠ t))

def serverArg (defs : Defs) (fuel : Nat) (kw : List String) (a : Arg) : SAttr :=
  match a.kind with
  | .body =>
    let d := if (isOptional defs fuel a.ty).isSome then Deser.opt (decide (dealiased defs fuel a.ty ≠ a.ty))
             else if isBinary defs fuel a.ty then .binary else .std
    .body d (ident kw a) (logAs kw a)
  | .header id =>
    .header id (if (isOptional defs fuel a.ty).isSome then optionalDec defs fuel a.ty else .one) (ident kw a) (logAs kw a)
  | .path => .path a.name (ident kw a) (logAs kw a)
  | .query id =>
    .query id (if (isOptional defs fuel a.ty).isSome then optionalDec defs fuel a.ty
               else if isIterable defs fuel a.ty then .seq else .one) (ident kw a) (logAs kw a)

/-- the attributes of the generated trait method (blocking and async alike), in order -/
def serverAttrs (defs : Defs) (fuel : Nat) (kw : List String) (e : Endpoint) : List SAttr :=
  [.endpoint e.method e.path e.name (e.returns.map (produces defs fuel))] ++
  (match e.auth with
    | .none => []
    | .header => [.auth none]
    | .cookie n => [.auth (some n)]) ++
  e.args.map (serverArg defs fuel kw) ++ (if e.context then [.context] else [])

/-! ### line protocol
`emit <defs> <endpoint>` with
defs = `(defs,(a,<ty>)|(o)…)`, ty = `(p,0|1)` `(o,ty)` `(l,ty)` `(s,ty)` `(m,ty,ty)` `(r,n)` `(x,ty)`,
endpoint = `(ep,<method>,<path>,<name>,(n)|(h)|(c,<hex>),<ctx 0|1>,(none)|(some,ty),(args,(a,<name>,<snake>,<kind>,<id>,ty)…))`
(strings in hex; kind p|q|h|b).  Output: the client calls joined by `;`, then ` || `, then the server attributes. -/
open ConjureVerif.Sexp ConjureVerif.Hex

def rdTy : Nat → Sexp → Option ITy
  | 0, _ => none
  | _ + 1, .list [.atom "p", .atom b] => some (.prim (b == "1"))
  | f + 1, .list [.atom "o", t] => (rdTy f t).map .optional
  | f + 1, .list [.atom "l", t] => (rdTy f t).map .list
  | f + 1, .list [.atom "s", t] => (rdTy f t).map .set
  | f + 1, .list [.atom "m", k, v] => match rdTy f k, rdTy f v with
    | some k, some v => some (.map k v)
    | _, _ => none
  | _ + 1, .list [.atom "r", .atom n] => n.toNat?.map .ref
  | f + 1, .list [.atom "x", t] => (rdTy f t).map .ext
  | _, _ => none

def rdDef : Sexp → Option IDef
  | .list [.atom "a", t] => (rdTy 64 t).map .alias
  | .list [.atom "o"] => some .other
  | _ => none

def rdAll {α : Type} (f : Sexp → Option α) : List Sexp → Option (List α)
  | [] => some []
  | x :: r => match f x, rdAll f r with
    | some a, some l => some (a :: l)
    | _, _ => none

def rdArg : Sexp → Option Arg
  | .list [.atom "a", .atom n, .atom sn, .atom k, .atom id, t] =>
    match unhex n, Idents.hexStr sn, unhex id, rdTy 64 t with
    | some n, some sn, some id, some t =>
      let kind : Option PKind := if k == "p" then some .path else if k == "q" then some (.query id)
        else if k == "h" then some (.header id) else if k == "b" then some .body else none
      kind.map (fun kind => { name := n, snake := sn, kind := kind, ty := t })
    | _, _, _, _ => none
  | _ => none

def rdEndpoint : Sexp → Option Endpoint
  | .list [.atom "ep", .atom m, .atom p, .atom n, auth, .atom ctx, ret, .list (.atom "args" :: as)] =>
    let auth? : Option Auth := match auth with
      | .list [.atom "n"] => some .none
      | .list [.atom "h"] => some .header
      | .list [.atom "c", .atom c] => (unhex c).map .cookie
      | _ => none
    let ret? : Option (Option ITy) := match ret with
      | .list [.atom "none"] => some none
      | .list [.atom "some", t] => (rdTy 64 t).map some
      | _ => none
    match unhex m, unhex p, unhex n, auth?, ret?, rdAll rdArg as with
    | some m, some p, some n, some auth, some ret, some args =>
      some { method := m, path := p, name := n, auth := auth, context := ctx == "1", returns := ret, args := args }
    | _, _, _, _, _, _ => none
  | _ => none

def hexS (s : String) : String := hex (strBytes s)

def showCall : Call → String
  | .req .empty _ => "req:empty"
  | .req .serializable i => "req:ser:" ++ hexS (i.getD "")
  | .req .binary i => "req:bin:" ++ hexS (i.getD "")
  | .lit s => "lit:" ++ hex s
  | .pathParam (some i) => "pp:" ++ hexS i
  | .pathParam none => "pp:?"
  | .query h k i => (match h with | .one => "q:" | .optional => "oq:" | .list => "lq:" | .set => "sq:") ++ hex k ++ ":" ++ hexS i
  | .headerAuth => "ha"
  | .cookieAuth p => "ca:" ++ hex p
  | .header o n i => (if o then "oh:" else "h:") ++ hex n ++ ":" ++ hexS i
  | .accept .empty => "acc:empty" | .accept .serializable => "acc:ser" | .accept .binary => "acc:bin"
  | .ext n p => "ext:" ++ hex n ++ ":" ++ hex p
  | .decode .empty => "dec:empty" | .decode .serializable => "dec:ser" | .decode .default_ => "dec:def"
  | .decode .binary => "dec:bin" | .decode .optionalBinary => "dec:optbin"

def showDec : Dec → String
  | .one => "one" | .opt false => "opt" | .opt true => "optfrom" | .seq => "seq"

def showLog : Option Bytes → String
  | none => "-" | some b => hex b

def showAttr : SAttr → String
  | .endpoint m p n pr => "ep:" ++ hex m ++ ":" ++ hex p ++ ":" ++ hex n ++ ":" ++
      (match pr with | none => "-" | some .std => "std" | some .collection => "collection" | some .binary => "bin" | some .optionalBinary => "optbin")
  | .auth none => "auth"
  | .auth (some c) => "auth:" ++ hex c
  | .path n i l => "path:" ++ hex n ++ ":" ++ hexS i ++ ":" ++ showLog l
  | .query id d i l => "query:" ++ hex id ++ ":" ++ showDec d ++ ":" ++ hexS i ++ ":" ++ showLog l
  | .header id d i l => "header:" ++ hex id ++ ":" ++ showDec d ++ ":" ++ hexS i ++ ":" ++ showLog l
  | .body d i l => "body:" ++ (match d with | .std => "std" | .opt false => "opt" | .opt true => "optfrom" | .binary => "bin") ++ ":" ++ hexS i ++ ":" ++ showLog l
  | .context => "ctx"

def handle (kw : List String) : List String → String
  | ["emit", defs, ep] =>
    match parse defs, (parse ep).bind rdEndpoint with
    | some (.list (.atom "defs" :: ds)), some e =>
      (match rdAll rdDef ds with
        | some defs =>
          let fuel := defs.length + 8
          ";".intercalate ((clientCalls defs fuel kw e).map showCall) ++ " || " ++
          ";".intercalate ((serverAttrs defs fuel kw e).map showAttr)
        | none => "bad-op")
    | _, _ => "bad-op"
  | _ => "bad-op"

end ConjureVerif.Emit
