import ConjureVerif.Model.Wrap
/-
Model of the dynamic `any` value (conjure-object/src/any): `ofVal` is `Any::new` (`AnySerializer`),
`toVal` is `Any::deserialize_into` (`Deserializer for Any`, with `toValKey` for `KeyDeserializer`),
`toJson` is `Serialize for Any` through the Conjure JSON serializer, `ofJson` is `Deserialize for Any`
(`AnyVisitor`) behind the Conjure JSON client deserializer.

Maps are association lists in insertion order: the real `BTreeMap` re-sorts entries, which is
invisible up to member order (documents and maps are compared up to order; keys are unique).
-/
namespace ConjureVerif.AnyM
open ConjureVerif.Data ConjureVerif.Wrap

mutual
  inductive Any
    | null | bool (b : Bool) | int (w : IntW) (n : Int) | f32 (d : Dbl) | f64 (d : Dbl)
    | str (s : List Nat) | bytes (bs : List Nat)
    | seq (xs : Anys) | map (es : AnyEntries)
  inductive Anys
    | nil | cons (x : Any) (xs : Anys)
  inductive AnyEntries
    | nil | cons (k v : Any) (es : AnyEntries)
end

/-! ### `Any::new` -/
mutual
  def ofVal : Ty → Val → Option Any
    | .bool, .bool b => some (.bool b)
    | .int w, .int n => some (.int w n)
    | .f64, .f64 d => some (.f64 d)
    | .f32, .f32 d => some (.f32 d)
    | .str, .str s => some (.str s)
    | .bytes, .bytes bs => some (.bytes bs)
    | .unit, .unit => some .null
    | .uuid, .uuid bs => some (.str (Plain.uuidText bs))     -- `AnySerializer` is human-readable
    | .option _, .none => some .null
    | .option t, .some v => ofVal t v
    | .seq t, .seq vs => (ofValL t vs).map Any.seq
    | .tuple ts, .tuple vs => (ofValT ts vs).map Any.seq
    | .map k v, .map es => (ofValE k v es).map Any.map
    | .unitStruct, .unitStruct => some .null
    | .newtype t, .newtype v => ofVal t v
    | .tupleStruct ts, .tupleStruct vs => (ofValT ts vs).map Any.seq
    | .struct fs, .struct vs => (ofValF fs vs).map Any.map
    | .enum vs, .variant i p =>
      match vs.get? i with
      | some (name, .unit, _) => (match p with | .unit => some (.str name) | _ => none)
      | some (name, _, pty) => (ofVal pty p).map (fun a => .map (.cons (.str name) a .nil))
      | none => none
    | _, _ => none
  def ofValL (t : Ty) : Vals → Option Anys
    | .nil => some .nil
    | .cons v vs =>
      match ofVal t v, ofValL t vs with
      | some a, some as => some (.cons a as)
      | _, _ => none
  def ofValT : Tys → Vals → Option Anys
    | .nil, .nil => some .nil
    | .cons t ts, .cons v vs =>
      match ofVal t v, ofValT ts vs with
      | some a, some as => some (.cons a as)
      | _, _ => none
    | _, _ => none
  def ofValE (kt vt : Ty) : Entries → Option AnyEntries
    | .nil => some .nil
    | .cons k v es =>
      match ofVal kt k, ofVal vt v, ofValE kt vt es with
      | some ka, some va, some as => some (.cons ka va as)
      | _, _, _ => none
  def ofValF : Fields → FVals → Option AnyEntries
    | .nil, .nil => some .nil
    | .cons name t fs, .cons v vs =>
      match ofVal t v, ofValF fs vs with
      | some a, some as => some (.cons (.str name) a as)
      | _, _ => none
    | _, _ => none
end

/-! ### `Any::deserialize_into` -/

def anyDbl : Any → Except DeErr Dbl
  | .f64 d => .ok d
  | .f32 d => .ok d
  | .str s => if s = txtNaN then .ok .nan else if s = txtInf then .ok .posInf
              else if s = txtNegInf then .ok .negInf else .error .other
  | .int _ _ => .error .unsupported
  | _ => .error .other

def anyBytes : Any → Except DeErr (List Nat)
  | .bytes bs => .ok bs
  | .str s => (match Base64.decode s with | some b => .ok b | none => .error .unsupported)
  | _ => .error .other

/-- `KeyDeserializer`: a string key is parsed for bool / numeric targets, otherwise the value rules -/
def toValKey : Ty → Any → Except DeErr Val
  | .bool, .bool b => .ok (.bool b)
  | .bool, .str s => if s = txtTrue then .ok (.bool true) else if s = txtFalse then .ok (.bool false) else .error .other
  | .int w, .int _ n => if w.contains n then .ok (.int n) else .error .other
  | .int w, .str s =>
    match Dec.parseRust s with
    | some n => if w.contains n then .ok (.int n) else .error .other
    | none => .error .other
  | .f64, .str s =>
    if s = txtNaN then .ok (.f64 .nan) else if s = txtInf then .ok (.f64 .posInf)
    else if s = txtNegInf then .ok (.f64 .negInf) else .error .unsupported
  | .f64, a => (anyDbl a).map Val.f64
  | .f32, .str s =>
    if s = txtNaN then .ok (.f32 .nan) else if s = txtInf then .ok (.f32 .posInf)
    else if s = txtNegInf then .ok (.f32 .negInf) else .error .unsupported
  | .f32, a => (anyDbl a).map Val.f32
  | .str, .str s => .ok (.str s)
  | .bytes, a => (anyBytes a).map Val.bytes
  | .uuid, .str s => (match Plain.uuidParse s with | some b => .ok (.uuid b) | none => .error .other)
  | .newtype t, a => (toValKey t a).map Val.newtype
  | .enum vs, .str s =>
    match vs.find? s 0 with
    | some (i, .unit, _) => .ok (.variant i .unit)
    | _ => .error .other
  | _, _ => .error .other

def fieldOfKey : Any → Option (List Nat)
  | .str s => some s
  | _ => none

mutual
  def toVal : Ty → Any → Except DeErr Val
    | .bool, .bool b => .ok (.bool b)
    | .int w, .int _ n => if w.contains n then .ok (.int n) else .error .other
    | .f64, a => (anyDbl a).map Val.f64
    | .f32, a => (anyDbl a).map Val.f32
    | .str, .str s => .ok (.str s)
    | .bytes, a => (anyBytes a).map Val.bytes
    | .unit, .null => .ok .unit
    | .uuid, .str s => (match Plain.uuidParse s with | some b => .ok (.uuid b) | none => .error .other)
    | .option _, .null => .ok .none
    | .option t, a => (toVal t a).map Val.some
    | .seq t, .seq xs => (toValL t xs).map Val.seq
    | .tuple ts, .seq xs => (toValT ts xs).map Val.tuple
    | .map k v, .map es => (toValE k v es).map Val.map
    | .unitStruct, .null => .ok .unitStruct
    | .newtype t, a => (toVal t a).map Val.newtype            -- `visit_newtype_struct(self)`
    | .tupleStruct ts, .seq xs => (toValT ts xs).map Val.tupleStruct
    | .struct fs, .map es =>
      (match toValM fs es [] with
        | .ok found => (assemble fs 0 found).map Val.struct
        | .error e => .error e)
    | .struct fs, .seq xs => (toValFL fs xs).map Val.struct
    | .enum vs, .str s =>
      (match vs.find? s 0 with
        | some (i, .unit, _) => .ok (.variant i .unit)
        | _ => .error .other)
    | .enum vs, .map (.cons (.str s) payload .nil) =>
      (match vs.find? s 0 with
        | some (i, .unit, _) => (match payload with | .null => .ok (.variant i .unit) | _ => .error .other)
        | some (i, .struct, .struct fs) =>
          (match payload with
            | .map es => (match toValM fs es [] with
                | .ok found => (assemble fs 0 found).map (fun f => Val.variant i (.struct f))
                | .error e => .error e)
            | .seq xs => (toValFL fs xs).map (fun f => Val.variant i (.struct f))
            | _ => .error .other)
        | some (i, _, pty) => (toVal pty payload).map (Val.variant i)
        | none => .error .other)
    | _, _ => .error .other
  termination_by ty a => (sizeOf a, sizeOf ty)
  def toValL (t : Ty) : Anys → Except DeErr Vals
    | .nil => .ok .nil
    | .cons x xs =>
      match toVal t x with
      | .ok v => (toValL t xs).map (Vals.cons v)
      | .error e => .error e
  termination_by xs => (sizeOf xs, sizeOf t)
  def toValT : Tys → Anys → Except DeErr Vals
    | .nil, .nil => .ok .nil
    | .cons t ts, .cons x xs =>
      match toVal t x with
      | .ok v => (toValT ts xs).map (Vals.cons v)
      | .error e => .error e
    | _, _ => .error .other
  termination_by ts xs => (sizeOf xs, sizeOf ts)
  def toValFL : Fields → Anys → Except DeErr FVals
    | .nil, .nil => .ok .nil
    | .cons _ t fs, .cons x xs =>
      match toVal t x with
      | .ok v => (toValFL fs xs).map (FVals.cons v)
      | .error e => .error e
    | _, _ => .error .other
  termination_by fs xs => (sizeOf xs, sizeOf fs)
  def toValE (kt vt : Ty) : AnyEntries → Except DeErr Entries
    | .nil => .ok .nil
    | .cons k x es =>
      match toValKey kt k with
      | .error e => .error e
      | .ok kv =>
        match toVal vt x with
        | .ok v => (toValE kt vt es).map (Entries.cons kv v)
        | .error e => .error e
  termination_by es => (sizeOf es, sizeOf vt)
  /-- entries of a map read as a struct (unknown fields are ignored: `IgnoredAny` accepts anything) -/
  def toValM (fs : Fields) : AnyEntries → List (Nat × Val) → Except DeErr (List (Nat × Val))
    | .nil, acc => .ok acc
    | .cons (.str name) x es, acc =>
      (match fieldIndex fs name 0 with
        | some (i, t) =>
          if (acc.lookup i).isSome then .error .other
          else match toVal t x with
            | .ok v => toValM fs es (acc ++ [(i, v)])
            | .error e => .error e
        | none => toValM fs es acc)
    | .cons _ _ _, _ => .error .unsupported
  termination_by es _ => (sizeOf es, sizeOf fs)
end

/-! ### `Serialize for Any` through the Conjure JSON serializer -/

def anyKey : Any → Option Key
  | .bool b => some (.text (if b then txtTrue else txtFalse))
  | .int _ n => some (.text (Dec.showInt n))
  | .f64 d => some (dblKey d)
  | .f32 d => some (dblKey d)
  | .str s => some (.text s)
  | .bytes bs => some (.text (Base64.encode bs))
  | _ => none

mutual
  def toJson : Any → Option Doc
    | .null => some .null
    | .bool b => some (.bool b)
    | .int _ n => some (.int n)
    | .f64 d => some (serDbl .json d)
    | .f32 d => some (serDbl .json d)
    | .str s => some (.str s)
    | .bytes bs => some (serBytes .json bs)
    | .seq xs => (toJsonL xs).map Doc.arr
    | .map es => (toJsonE es).map Doc.obj
  def toJsonL : Anys → Option Docs
    | .nil => some .nil
    | .cons x xs =>
      match toJson x, toJsonL xs with
      | some d, some ds => some (.cons d ds)
      | _, _ => none
  def toJsonE : AnyEntries → Option Members
    | .nil => some .nil
    | .cons k v es =>
      match anyKey k, toJson v, toJsonE es with
      | some kd, some vd, some ms => some (.cons kd vd ms)
      | _, _, _ => none
end

/-! ### `Deserialize for Any` from JSON (serde_json hands non-negative integers over as `u64`) -/
def jsonIntWidth (n : Int) : IntW := if n < 0 then ⟨true, 64⟩ else ⟨false, 64⟩

/-- whether the entries hold the text key `k` -/
def entriesHaveStr (k : List Nat) : AnyEntries → Bool
  | .nil => false
  | .cons (.str k') _ es => k' == k || entriesHaveStr k es
  | .cons _ _ es => entriesHaveStr k es

mutual
  def ofJson : Doc → Option Any
    | .null => some .null
    | .bool b => some (.bool b)
    | .int n => some (.int (jsonIntWidth n) n)
    | .dbl d => some (.f64 d)
    | .str s => some (.str s)
    | .bin _ => none                 -- not JSON
    | .arr xs => (ofJsonL xs).map Any.seq
    | .obj ms => (ofJsonM ms).map Any.map
  def ofJsonL : Docs → Option Anys
    | .nil => some .nil
    | .cons x xs =>
      match ofJson x, ofJsonL xs with
      | some a, some as => some (.cons a as)
      | _, _ => none
  def ofJsonM : Members → Option AnyEntries
    | .nil => some .nil
    | .cons (.text k) v ms =>
      -- the visitor inserts into a map: of two members with one name the later stays
      (match ofJson v, ofJsonM ms with
        | some a, some as => some (if entriesHaveStr k as then as else .cons (.str k) a as)
        | _, _ => none)
    | .cons (.flt _) _ _ => none     -- keys of a parsed JSON document are plain text
end

end ConjureVerif.AnyM
