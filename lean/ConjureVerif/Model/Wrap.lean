import ConjureVerif.Model.Data
import ConjureVerif.Model.Base64
import ConjureVerif.Model.Dec
import ConjureVerif.Model.Plain
/-
L3: the Conjure serializer / deserializer wrappers (conjure-serde) as an interpreter over the serde
data model: `ser fmt ty v` is the document tree the wrapped serializer produces, `de fmt side ty doc`
what the wrapped deserializer reads.  Every descent below corresponds to one serde entry point at which
`Override` re-applies the Conjure behaviour; map keys are handled by `serKey` / `deKey`, i.e. under
`KeyBehavior`.
-/
namespace ConjureVerif.Wrap
open ConjureVerif.Data

inductive Fmt | json | smile
deriving DecidableEq, Repr

inductive Side | client | server
deriving DecidableEq, Repr

inductive DeErr
  | unknownField (name : List Nat)
  | other
  | unsupported          -- behaviour of third-party code the model does not describe; never generated
deriving DecidableEq, Repr

def txtNaN : List Nat := [78, 97, 78]
def txtInf : List Nat := [73, 110, 102, 105, 110, 105, 116, 121]
def txtNegInf : List Nat := 45 :: txtInf
def txtTrue : List Nat := [116, 114, 117, 101]
def txtFalse : List Nat := [102, 97, 108, 115, 101]

/-- a double in value position: JSON writes non-finite values as strings, Smile is native -/
def serDbl (fmt : Fmt) (d : Dbl) : Doc :=
  match fmt, d with
  | .json, .nan => .str txtNaN
  | .json, .posInf => .str txtInf
  | .json, .negInf => .str txtNegInf
  | _, d => .dbl d

def deDbl (fmt : Fmt) : Doc → Except DeErr Dbl
  | .dbl d => .ok d
  | .str s =>
    if fmt = .json then
      if s = txtNaN then .ok .nan else if s = txtInf then .ok .posInf
      else if s = txtNegInf then .ok .negInf else .error .other
    else .error .other
  | .int _ => .error .unsupported      -- serde accepts integer tokens for floats (conversion not modelled)
  | _ => .error .other

def serBytes (fmt : Fmt) (bs : List Nat) : Doc :=
  match fmt with
  | .json => .str (Base64.encode bs)
  | .smile => .bin bs

def deBytes (fmt : Fmt) : Doc → Except DeErr (List Nat)
  | .str s => if fmt = .json then (match Base64.decode s with | some b => .ok b | none => .error .other)
              else .error .unsupported
  | .bin bs => if fmt = .smile then .ok bs else .error .other
  | _ => .error .other

/-- key position (both formats use JSON's `KeyBehavior`): every scalar becomes a string -/
def dblKey : Dbl → Key
  | .nan => .text txtNaN
  | .posInf => .text txtInf
  | .negInf => .text txtNegInf
  | .fin bits => .flt bits

def serKey : Ty → Val → Option Key
  | .bool, .bool b => some (.text (if b then txtTrue else txtFalse))
  | .int _, .int n => some (.text (Dec.showInt n))
  | .f64, .f64 d => some (dblKey d)
  | .f32, .f32 d => some (dblKey d)
  | .str, .str s => some (.text s)
  | .bytes, .bytes bs => some (.text (Base64.encode bs))
  | .uuid, .uuid bs => some (.text (Plain.uuidText bs))      -- key serializers are human-readable in both formats
  | .newtype t, .newtype v => serKey t v
  | .enum vs, .variant i .unit =>
    match vs.get? i with
    | some (name, .unit, _) => some (.text name)
    | _ => none
  | _, _ => none

mutual
  def ser (fmt : Fmt) : Ty → Val → Option Doc
    | .bool, .bool b => some (.bool b)
    | .int _, .int n => some (.int n)
    | .f64, .f64 d => some (serDbl fmt d)
    | .f32, .f32 d => some (serDbl fmt d)
    | .str, .str s => some (.str s)
    | .bytes, .bytes bs => some (serBytes fmt bs)
    | .unit, .unit => some .null
    | .uuid, .uuid bs => some (match fmt with | .json => .str (Plain.uuidText bs) | .smile => .bin bs)
    | .option _, .none => some .null
    | .option t, .some v => ser fmt t v
    | .seq t, .seq vs => (serL fmt t vs).map Doc.arr
    | .tuple ts, .tuple vs => (serT fmt ts vs).map Doc.arr
    | .map k v, .map es => (serE fmt k v es).map Doc.obj
    | .unitStruct, .unitStruct => some .null
    | .newtype t, .newtype v => ser fmt t v
    | .tupleStruct ts, .tupleStruct vs => (serT fmt ts vs).map Doc.arr
    | .struct fs, .struct vs => (serF fmt fs vs).map Doc.obj
    | .enum vs, .variant i p =>
      match vs.get? i with
      | some (name, .unit, _) => (match p with | .unit => some (.str name) | _ => none)
      | some (name, _, pty) => (ser fmt pty p).map (fun d => .obj (.cons (.text name) d .nil))
      | none => none
    | _, _ => none
  def serL (fmt : Fmt) (t : Ty) : Vals → Option Docs
    | .nil => some .nil
    | .cons v vs =>
      match ser fmt t v, serL fmt t vs with
      | some d, some ds => some (.cons d ds)
      | _, _ => none
  def serT (fmt : Fmt) : Tys → Vals → Option Docs
    | .nil, .nil => some .nil
    | .cons t ts, .cons v vs =>
      match ser fmt t v, serT fmt ts vs with
      | some d, some ds => some (.cons d ds)
      | _, _ => none
    | _, _ => none
  def serE (fmt : Fmt) (kt vt : Ty) : Entries → Option Members
    | .nil => some .nil
    | .cons k v es =>
      match serKey kt k, ser fmt vt v, serE fmt kt vt es with
      | some kd, some vd, some ms => some (.cons kd vd ms)
      | _, _, _ => none
  def serF (fmt : Fmt) : Fields → FVals → Option Members
    | .nil, .nil => some .nil
    | .cons name t fs, .cons v vs =>
      match ser fmt t v, serF fmt fs vs with
      | some d, some ms => some (.cons (.text name) d ms)
      | _, _ => none
    | _, _ => none
end

def deKey : Ty → Key → Except DeErr Val
  | .bool, .text s => if s = txtTrue then .ok (.bool true) else if s = txtFalse then .ok (.bool false) else .error .other
  | .int w, .text s =>
    match Dec.parseJson s with
    | some n => if w.contains n then .ok (.int n) else .error .other
    | none => .error .other
  | .f64, .text s =>
    if s = txtNaN then .ok (.f64 .nan) else if s = txtInf then .ok (.f64 .posInf)
    else if s = txtNegInf then .ok (.f64 .negInf) else .error .unsupported
  | .f64, .flt bits => .ok (.f64 (.fin bits))
  | .f32, .text s =>
    if s = txtNaN then .ok (.f32 .nan) else if s = txtInf then .ok (.f32 .posInf)
    else if s = txtNegInf then .ok (.f32 .negInf) else .error .unsupported
  | .f32, .flt bits => .ok (.f32 (.fin bits))
  | .str, .text s => .ok (.str s)
  | .bytes, .text s => (match Base64.decode s with | some b => .ok (.bytes b) | none => .error .other)
  | .uuid, .text s => (match Plain.uuidParse s with | some b => .ok (.uuid b) | none => .error .other)
  | .newtype t, k => (deKey t k).map Val.newtype
  | .enum vs, .text s =>
    match vs.find? s 0 with
    | some (i, .unit, _) => .ok (.variant i .unit)
    | _ => .error .other
  | _, _ => .error .other

/-- look a member name up among the declared fields -/
def fieldIndex : Fields → List Nat → Nat → Option (Nat × Ty)
  | .nil, _, _ => none
  | .cons n t fs, name, i => if n = name then some (i, t) else fieldIndex fs name (i + 1)

def isOption : Ty → Bool
  | .option _ => true
  | _ => false

/-- derive(Deserialize): every field exactly once; an absent `Option` field is `None` -/
def assemble : Fields → Nat → List (Nat × Val) → Except DeErr FVals
  | .nil, _, _ => .ok .nil
  | .cons _ t fs, i, found =>
    match found.lookup i with
    | some v => (assemble fs (i + 1) found).map (FVals.cons v)
    | none => if isOption t then (assemble fs (i + 1) found).map (FVals.cons .none) else .error .other

mutual
  def de (fmt : Fmt) (side : Side) : Ty → Doc → Except DeErr Val
    | .bool, .bool b => .ok (.bool b)
    | .int w, .int n => if w.contains n then .ok (.int n) else .error .other
    | .f64, d => (deDbl fmt d).map Val.f64
    | .f32, d => (deDbl fmt d).map Val.f32
    | .str, .str s => .ok (.str s)
    | .bytes, d => (deBytes fmt d).map Val.bytes
    | .unit, .null => .ok .unit
    | .uuid, .str s =>
      if fmt = .json then (match Plain.uuidParse s with | some b => .ok (.uuid b) | none => .error .other)
      else .error .other
    | .uuid, .bin bs => if fmt = .smile ∧ bs.length = 16 then .ok (.uuid bs) else .error .other
    | .option _, .null => .ok .none
    | .option t, d => (de fmt side t d).map Val.some
    | .seq t, .arr xs => (deL fmt side t xs).map Val.seq
    | .tuple ts, .arr xs => (deT fmt side ts xs).map Val.tuple
    | .map k v, .obj ms => (deE fmt side k v ms).map Val.map
    | .unitStruct, .null => .ok .unitStruct
    | .newtype t, d => (de fmt side t d).map Val.newtype
    | .tupleStruct ts, .arr xs => (deT fmt side ts xs).map Val.tupleStruct
    -- a struct reached through `deserialize_struct`: the server wrapper intercepts unknown fields
    | .struct fs, .obj ms =>
      match deM fmt side (side == .server) fs ms [] with
      | .ok found => (assemble fs 0 found).map Val.struct
      | .error e => .error e
    | .struct fs, .arr xs => (deFL fmt side fs xs).map Val.struct      -- serde's positional form
    | .enum vs, .str s =>
      (match vs.find? s 0 with
        | some (i, .unit, _) => .ok (.variant i .unit)
        | _ => .error .other)
    | .enum vs, .obj (.cons (.text s) payload .nil) =>
      (match vs.find? s 0 with
        | some (i, .unit, _) => (match payload with | .null => .ok (.variant i .unit) | _ => .error .other)
        | some (i, .struct, .struct fs) =>
          -- `VariantAccess::struct_variant` does not pass through `deserialize_struct`: never strict
          (match payload with
            | .obj ms => (match deM fmt side false fs ms [] with
                | .ok found => (assemble fs 0 found).map (fun f => Val.variant i (.struct f))
                | .error e => .error e)
            | .arr xs => (deFL fmt side fs xs).map (fun f => Val.variant i (.struct f))
            | _ => .error .other)
        | some (i, _, pty) => (de fmt side pty payload).map (Val.variant i)
        | none => .error .other)
    | _, _ => .error .other
  termination_by ty doc => (sizeOf doc, sizeOf ty)
  def deL (fmt : Fmt) (side : Side) (t : Ty) : Docs → Except DeErr Vals
    | .nil => .ok .nil
    | .cons x xs =>
      match de fmt side t x with
      | .ok v => (deL fmt side t xs).map (Vals.cons v)
      | .error e => .error e
  termination_by xs => (sizeOf xs, sizeOf t)
  def deT (fmt : Fmt) (side : Side) : Tys → Docs → Except DeErr Vals
    | .nil, .nil => .ok .nil
    | .cons t ts, .cons x xs =>
      match de fmt side t x with
      | .ok v => (deT fmt side ts xs).map (Vals.cons v)
      | .error e => .error e
    | _, _ => .error .other
  termination_by ts xs => (sizeOf xs, sizeOf ts)
  def deFL (fmt : Fmt) (side : Side) : Fields → Docs → Except DeErr FVals
    | .nil, .nil => .ok .nil
    | .cons _ t fs, .cons x xs =>
      match de fmt side t x with
      | .ok v => (deFL fmt side fs xs).map (FVals.cons v)
      | .error e => .error e
    | _, _ => .error .other
  termination_by fs xs => (sizeOf xs, sizeOf fs)
  def deE (fmt : Fmt) (side : Side) (kt vt : Ty) : Members → Except DeErr Entries
    | .nil => .ok .nil
    | .cons k x ms =>
      match deKey kt k with
      | .error e => .error e
      | .ok kv =>
        match de fmt side vt x with
        | .ok v => (deE fmt side kt vt ms).map (Entries.cons kv v)
        | .error e => .error e
  termination_by ms => (sizeOf ms, sizeOf vt)
  /-- the members of an object read as a struct: `(field index, value)` in document order;
      `strict` = the server's unknown-field interception is in force -/
  def deM (fmt : Fmt) (side : Side) (strict : Bool) (fs : Fields) : Members → List (Nat × Val) →
      Except DeErr (List (Nat × Val))
    | .nil, acc => .ok acc
    | .cons (.text name) x ms, acc =>
      match fieldIndex fs name 0 with
      | some (i, t) =>
        if (acc.lookup i).isSome then .error .other        -- duplicate field
        else match de fmt side t x with
          | .ok v => deM fmt side strict fs ms (acc ++ [(i, v)])
          | .error e => .error e
      | none => if strict then .error (.unknownField name) else deM fmt side strict fs ms acc
    | .cons (.flt _) _ _, _ => .error .unsupported
  termination_by ms _ => (sizeOf ms, sizeOf fs)
end

end ConjureVerif.Wrap
