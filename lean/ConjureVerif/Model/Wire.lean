import ConjureVerif.Model.WrapIO
import ConjureVerif.Model.AnyIO
import ConjureVerif.Model.Plain
import ConjureVerif.Model.Rid
import ConjureVerif.Model.Token
import ConjureVerif.Model.SafeLong
import ConjureVerif.Model.Base64
/-
C02 — the Conjure wire format, transcribed from the specification independently of the generator: for a set of
type definitions, a configuration and a type, `canon` maps a JSON document to the canonical re-serialization of the
value it denotes, or rejects it.  Generated types must agree with it: deserialize-then-serialize = `canon`.
-/
namespace ConjureVerif.Wire
open ConjureVerif ConjureVerif.Data

abbrev Bytes := List Nat

inductive Prim
  | string | integer | safelong | double | boolean | uuid | rid | bearertoken | datetime | binary | any
deriving DecidableEq, Repr

inductive CTy
  | prim (p : Prim)
  | optional (t : CTy)
  | list (t : CTy)
  | set (t : CTy)
  | map (k v : CTy)
  | ref (n : Nat)          -- index into the definitions
deriving Repr

inductive Def
  | alias (t : CTy)
  | enum (values : List Bytes)
  | object (fields : List (Bytes × CTy))
  | union (variants : List (Bytes × CTy))
deriving Repr

structure Cfg where
  exhaustive : Bool
  serializeEmpty : Bool
  /-- server deserializers reject unknown fields; client deserializers ignore them (C05) -/
  server : Bool
deriving Repr

abbrev Defs := List Def

def validVariant (s : Bytes) : Bool :=
  !s.isEmpty && s.all (fun b => (65 ≤ b && b ≤ 90) || (48 ≤ b && b ≤ 57) || b == 95)

def nanText : Bytes := [78, 97, 78]
def safeInt (n : Int) : Bool := decide (-9007199254740991 ≤ n ∧ n ≤ 9007199254740991)
def i32Int (n : Int) : Bool := decide (-2147483648 ≤ n ∧ n ≤ 2147483647)

/-- a primitive in its specified encoding (doubles: a JSON number with a fraction or exponent, or one of the three
strings; a double written as an integer is `primCanon`'s business) -/
def primOk : Prim → Doc → Bool
  | .string, .str _ => true
  | .integer, .int n => i32Int n
  | .safelong, .int n => safeInt n
  | .double, .dbl (.fin _) => true
  | .double, .str s => s == nanText || s == Plain.infinityText || s == Plain.negInfinityText
  | .boolean, .bool _ => true
  | .uuid, .str s => (Plain.uuidParse s).isSome
  | .rid, .str s => (Rid.parse s).isSome
  | .bearertoken, .str s => Token.isValid s
  | .datetime, .str s => (Plain.dtParse s).isSome
  | .binary, .str s => (Base64.decode s).isSome
  | .any, .null => false
  | .any, _ => true
  | _, _ => false

/-- the binary64 bit pattern of an integer of magnitude below 2^53 (every such integer is a double, exactly) -/
def intBits (n : Int) : Nat :=
  let a := n.natAbs
  if a = 0 then 0
  else
    let e := Nat.log2 a
    (if n < 0 then 2 ^ 63 else 0) + (e + 1023) * 2 ^ 52 + (a - 2 ^ e) * 2 ^ (52 - e)

/-- the canonical form of a primitive: itself — except that a double may be written as an integer (any JSON number
is a double), whose canonical form is the double; integers of magnitude 2^53 and above, which need not be exactly
representable, are outside the documents compared and are given no canonical form here -/
def primCanon : Prim → Doc → Option Doc
  | .double, .int n => if safeInt n then some (.dbl (.fin (intBits n))) else none
  | p, d => if primOk p d then some d else none

/-- a map key, as the text of the member name -/
def keyPrimOk : Prim → Bytes → Bool
  | .string, _ => true
  | .integer, s => (Plain.i32Parse s).isSome
  | .safelong, s => (SafeLong.fromStr s).isSome
  | .double, s => s == nanText || s == Plain.infinityText || s == Plain.negInfinityText || !s.isEmpty
  | .boolean, s => (Plain.boolParse s).isSome
  | .uuid, s => (Plain.uuidParse s).isSome
  | .rid, s => (Rid.parse s).isSome
  | .bearertoken, s => Token.isValid s
  | .datetime, s => (Plain.dtParse s).isSome
  | .binary, s => (Base64.decode s).isSome
  | .any, _ => false

/-- what a field of this type is once aliases are looked through -/
inductive Shape
  | required | optional (inner : CTy) | collection (isMap : Bool)
deriving Repr

def shape (defs : Defs) : Nat → CTy → Shape
  | _, .prim _ => .required
  | _, .optional t => .optional t
  | _, .list _ | _, .set _ => .collection false
  | _, .map _ _ => .collection true
  | 0, .ref _ => .required
  | fuel + 1, .ref n => match defs[n]? with
    | some (.alias t) => shape defs fuel t
    | _ => .required

def members : Members → List (Key × Doc)
  | .nil => []
  | .cons k v ms => (k, v) :: members ms

def ofMembers : List (Key × Doc) → Members
  | [] => .nil
  | (k, v) :: r => .cons k v (ofMembers r)

def docsList : Docs → List Doc
  | .nil => []
  | .cons x xs => x :: docsList xs

def ofDocs : List Doc → Docs
  | [] => .nil
  | x :: xs => .cons x (ofDocs xs)

def isEmptyColl : Doc → Bool
  | .arr .nil => true
  | .obj .nil => true
  | _ => false

def typeKey : Key := .text [116, 121, 112, 101]

def allSome {α : Type} : List (Option α) → Option (List α)
  | [] => some []
  | none :: _ => none
  | some x :: r => (allSome r).map (x :: ·)

def countKey (ms : List (Key × Doc)) (k : Key) : Nat := (ms.filter (fun m => m.1 == k)).length

def keyTy (defs : Defs) : Nat → CTy → Bytes → Bool
  | _, .prim p, s => keyPrimOk p s
  | 0, _, _ => false
  | fuel + 1, .ref n, s => match defs[n]? with
    | some (.alias t) => keyTy defs fuel t s
    | some (.enum _) => validVariant s
    | _ => false
  | _, _, _ => false

/-- one declared field of an object: `given` is the member of that name, `sub` canonicalises a present value.
Returns the members this field contributes to the canonical object, or `none` if the document is invalid here. -/
def fieldPart (cfg : Cfg) (sh : Shape) (name : Bytes) (given : Option Doc) (sub : Doc → Option Doc) :
    Option (List (Key × Doc)) :=
  match sh, given with
  | .required, none => none
  | .required, some .null => none
  | .required, some v => (sub v).map (fun v' => [(Key.text name, v')])
  | .optional _, none | .optional _, some .null =>
    some (if cfg.serializeEmpty then [(Key.text name, Doc.null)] else [])
  | .optional _, some v => (sub v).map (fun v' =>
      if v' matches .null then (if cfg.serializeEmpty then [(Key.text name, Doc.null)] else []) else [(Key.text name, v')])
  | .collection isMap, none =>
    -- an absent collection is the empty collection (its canonical form, so that running out of fuel is uniform)
    (sub (if isMap then Doc.obj .nil else Doc.arr .nil)).map (fun e =>
      if cfg.serializeEmpty then [(Key.text name, e)] else [])
  | .collection _, some .null => none
  | .collection _, some v => (sub v).map (fun v' =>
      if isEmptyColl v' && !cfg.serializeEmpty then [] else [(Key.text name, v')])

/-- the two members of a union document, in either order: the variant name and its payload -/
def unionPick (k1 : Key) (v1 : Doc) (k2 : Key) (v2 : Doc) : Option (Bytes × Doc) :=
  if k1 == typeKey then
    (match v1, k2 with
      | .str name, .text m => if m == name then some (name, v2) else none
      | _, _ => none)
  else if k2 == typeKey then
    (match v2, k1 with
      | .str name, .text m => if m == name then some (name, v1) else none
      | _, _ => none)
  else none

/-- canonical re-serialization of the value a document denotes for a type, or `none` if the document
contradicts the definition -/
def canon (defs : Defs) (cfg : Cfg) : Nat → CTy → Doc → Option Doc
  | 0, _, _ => none
  | _ + 1, .prim p, d => primCanon p d
  | fuel + 1, .optional t, d => match d with
    | .null => some .null
    | d => canon defs cfg fuel t d
  | fuel + 1, .list t, d => match d with
    | .arr xs => (allSome ((docsList xs).map (canon defs cfg fuel t))).map (fun ys => .arr (ofDocs ys))
    | _ => none
  | fuel + 1, .set t, d => match d with
    | .arr xs => (allSome ((docsList xs).map (canon defs cfg fuel t))).map (fun ys => .arr (ofDocs ys))
    | _ => none
  | fuel + 1, .map k v, d => match d with
    | .obj ms =>
      (allSome ((members ms).map (fun m => match m.1 with
        | .text s => if keyTy defs fuel k s then (canon defs cfg fuel v m.2).map (fun v' => (m.1, v')) else none
        | .flt _ => none))).map (fun ms' => .obj (ofMembers ms'))
    | _ => none
  | fuel + 1, .ref n, d => match defs[n]? with
    | none => none
    | some (.alias t) => canon defs cfg fuel t d
    | some (.enum values) => match d with
      | .str s => if values.contains s then some d else if !cfg.exhaustive && validVariant s then some d else none
      -- what the derived enum *also* accepts although the wire format says a string (known finding D9): serde's
      -- externally tagged spelling `{"VALUE": null}` of a listed value
      | .obj (.cons (.text s) .null .nil) => if values.contains s then some (.str s) else none
      | _ => none
    | some (.object fields) => match d with
      | .obj ms =>
        let ms := members ms
        let known := fields.map (fun f => Key.text f.1)
        -- a declared field twice is an error; an undeclared field is an error on servers only
        if fields.any (fun f => countKey ms (.text f.1) > 1) then none
        else if cfg.server && ms.any (fun m => !known.contains m.1) then none
        else
          (allSome (fields.map (fun f =>
            fieldPart cfg (shape defs fuel f.2) f.1 (ms.lookup (Key.text f.1)) (canon defs cfg fuel f.2)))).map
            (fun parts => .obj (ofMembers parts.flatten))
      | _ => none
    | some (.union variants) => match d with
      | .obj ms =>
        match members ms with
        | [(k1, v1), (k2, v2)] =>
          let pick := unionPick k1 v1 k2 v2
          match pick with
          | none => none
          | some (name, payload) =>
            match variants.lookup name with
            | some t => (canon defs cfg fuel t payload).map (fun p' => .obj (.cons typeKey (.str name) (.cons (.text name) p' .nil)))
            | none => if cfg.exhaustive then none else
                some (.obj (.cons typeKey (.str name) (.cons (.text name) payload .nil)))
        | _ => none
      | _ => none

/-! ### line protocol -/
open ConjureVerif.Sexp

def rdPrim : String → Option Prim
  | "string" => some .string | "integer" => some .integer | "safelong" => some .safelong | "double" => some .double
  | "boolean" => some .boolean | "uuid" => some .uuid | "rid" => some .rid | "bearertoken" => some .bearertoken
  | "datetime" => some .datetime | "binary" => some .binary | "any" => some .any | _ => none

def rdTy : Nat → Sexp → Option CTy
  | 0, _ => none
  | _ + 1, .list [.atom "p", .atom p] => (rdPrim p).map CTy.prim
  | f + 1, .list [.atom "opt", t] => (rdTy f t).map CTy.optional
  | f + 1, .list [.atom "list", t] => (rdTy f t).map CTy.list
  | f + 1, .list [.atom "set", t] => (rdTy f t).map CTy.set
  | f + 1, .list [.atom "map", k, v] => match rdTy f k, rdTy f v with
    | some k, some v => some (.map k v)
    | _, _ => none
  | _ + 1, .list [.atom "ref", .atom n] => n.toNat?.map CTy.ref
  | _, _ => none

def rdFields : List Sexp → Option (List (Bytes × CTy))
  | [] => some []
  | .list [.atom "f", .atom h, t] :: r => match Hex.unhex h, rdTy 50 t, rdFields r with
    | some n, some t, some fs => some ((n, t) :: fs)
    | _, _, _ => none
  | _ => none

def rdHexes : List Sexp → Option (List Bytes)
  | [] => some []
  | .atom h :: r => match Hex.unhex h, rdHexes r with
    | some b, some bs => some (b :: bs)
    | _, _ => none
  | _ => none

def rdDefs : List Sexp → Option Defs
  | [] => some []
  | .list [.atom "alias", t] :: r => match rdTy 50 t, rdDefs r with
    | some t, some ds => some (.alias t :: ds)
    | _, _ => none
  | .list (.atom "enum" :: vs) :: r => match rdHexes vs, rdDefs r with
    | some vs, some ds => some (.enum vs :: ds)
    | _, _ => none
  | .list (.atom "object" :: fs) :: r => match rdFields fs, rdDefs r with
    | some fs, some ds => some (.object fs :: ds)
    | _, _ => none
  | .list (.atom "union" :: fs) :: r => match rdFields fs, rdDefs r with
    | some fs, some ds => some (.union fs :: ds)
    | _, _ => none
  | _ => none

/-- may the field be absent from a document (optional or collection, through aliases)? -/
def omittable (defs : Defs) (t : CTy) : Bool :=
  match shape defs 60 t with
  | .required => false
  | _ => true

def attrText (defs : Defs) (serializeEmpty : Bool) (f : Bytes × CTy) : String :=
  Hex.hex f.1 ++ ":" ++ (if omittable defs f.2 then "d" else "-") ++ ":" ++
    (if omittable defs f.2 && !serializeEmpty then "s" else "-")

def handle : List String → String
  | ["canon", defs, cfg, ty, doc] =>
    match parse defs, (parse ty).bind (rdTy 50), (parse doc).bind (WrapIO.readDoc 200) with
    | some (.list (.atom "defs" :: ds)), some t, some d =>
      (match rdDefs ds, cfg.toList with
        | some defs, [e, m, s] =>
          let c : Cfg := { exhaustive := e == '1', serializeEmpty := m == '1', server := s == '1' }
          (match canon defs c 60 t d with
            | some d' => "ok " ++ AnyIO.showDocS d'
            | none => "err")
        | _, _ => "bad-op")
    | _, _, _ => "bad-op"
  -- the serde attributes the generator must put on each field of object `n`:
  -- `<hex name>:<d if defaulted>:<s if skipped when empty>` per field
  | ["attrs", defs, cfg, n] =>
    match parse defs, n.toNat?, cfg.toList with
    | some (.list (.atom "defs" :: ds)), some n, [_, m, _] =>
      (match rdDefs ds with
        | some defs =>
          (match defs[n]? with
            | some (.object fields) =>
              ",".intercalate (fields.map (fun f => attrText defs (m == '1') f))
            | _ => "not-an-object")
        | none => "bad-op")
    | _, _, _ => "bad-op"
  | _ => "bad-op"

end ConjureVerif.Wire
