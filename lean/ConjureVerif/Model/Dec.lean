/-
Decimal text of integers, as bytes (`List Nat`, each < 256).

`showNat`/`showInt` model Rust's `Display` for integer types (no sign for non-negatives, `-` prefix,
no leading zeros).  `parseRust` models `<iN as FromStr>::from_str` *before* the width check: optional
single `+` or `-`, then at least one ASCII digit, leading zeros allowed.  `parseJson` models the JSON
integer grammar that `serde_json` applies to number tokens and to stringified map keys: optional `-`,
then `0` or a non-zero digit followed by digits
(`-0` is excluded: serde_json reads it as the float `-0.0`, which no integer visitor accepts).
-/
namespace ConjureVerif.Dec

def isDigit (c : Nat) : Bool := 48 ≤ c && c ≤ 57

/-- value of a digit string, most significant first (no validation) -/
def digitsVal (ds : List Nat) : Nat := ds.foldl (fun acc c => acc * 10 + (c - 48)) 0

def showNat (n : Nat) : List Nat :=
  if h : n < 10 then [48 + n] else showNat (n / 10) ++ [48 + n % 10]
termination_by n
decreasing_by omega

def showInt (v : Int) : List Nat :=
  if v < 0 then 45 :: showNat v.natAbs else showNat v.natAbs

def parseNatDigits (ds : List Nat) : Option Nat :=
  if ds.isEmpty then none else if ds.all isDigit then some (digitsVal ds) else none

/-- Rust integer `FromStr` grammar (value unbounded; callers apply the width check) -/
def parseRust : List Nat → Option Int
  | 43 :: ds => (parseNatDigits ds).map (fun n => (n : Int))
  | 45 :: ds => (parseNatDigits ds).map (fun n => -(n : Int))
  | ds => (parseNatDigits ds).map (fun n => (n : Int))

/-- JSON integer grammar: `-?(0|[1-9][0-9]*)` -/
def parseJson : List Nat → Option Int
  | 45 :: ds =>
    match ds with
    | 48 :: _ => none        -- `-0` is a floating-point token to serde_json; `-0…` is malformed
    | _ => (parseNatDigits ds).map (fun n => -(n : Int))
  | ds =>
    match ds with
    | [48] => some 0
    | 48 :: _ => none
    | _ => (parseNatDigits ds).map (fun n => (n : Int))

end ConjureVerif.Dec
