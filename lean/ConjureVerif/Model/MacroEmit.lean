import ConjureVerif.Model.Uri
/-
Model of what `#[conjure_client]` derives from an endpoint's path template and its path / query arguments
(conjure-macros/src/path.rs `parse`, conjure-macros/src/client.rs `add_path_components`, `add_query_arg`): the
`UriBuilder` calls of the derived method, as data, and what performing them with given argument values writes.
Text is bytes.  The percent-encode set the macro applies to literals and keys at expansion time is a parameter.
-/
namespace ConjureVerif.MacroEmit
open ConjureVerif.Uri

abbrev Bytes := List Nat

/-- `PathComponent` -/
inductive Comp
  | lit (s : Bytes)
  | param (name : Bytes)
deriving DecidableEq, Repr

/-- a component is a parameter when it starts with `{` and what follows ends with `}` -/
def compOf (s : Bytes) : Comp :=
  match s with
  | 123 :: r =>
    match r.reverse with
    | 125 :: m => .param m.reverse
    | _ => .lit s
  | _ => .lit s

/-- `path::parse`: empty, or `/` followed by components separated by `/`; anything else is refused -/
def parse (p : Bytes) : Option (List Comp) :=
  match p with
  | [] => some []
  | 47 :: r => some ((splitOn 47 r).map compOf)
  | _ => none

/-- a path or query argument of the trait method: the name it goes by and its position in the call -/
structure MArg where
  name : Bytes
  slot : Nat
deriving DecidableEq, Repr

/-- the statements of the derived method that touch the builder -/
inductive MCall
  | lit (segs : List Bytes)              -- `push_literal("/a/b")`, the segments already encoded
  | pathArg (slot : Nat)                 -- `for v in encode(arg) { push_path_parameter_raw(v) }`
  | queryArg (key : Bytes) (slot : Nat)  -- `for v in encode(arg) { push_query_parameter_raw(KEY, v) }`
deriving DecidableEq, Repr

/-- `path_params`: a map from name to argument; with two arguments of one name the later one stays -/
def lookup (pathArgs : List MArg) (n : Bytes) : Option MArg :=
  pathArgs.reverse.find? (fun a => a.name == n)

/-- `add_path_components`: literals are encoded and joined until a parameter or the end of the template flushes
them; a parameter that names no path argument stops the expansion (`None`) -/
def pathWrites (tbl : List Nat) (pathArgs : List MArg) : List Comp → List Bytes → Option (List MCall)
  | [], cur => some (if cur.isEmpty then [] else [.lit cur])
  | .lit l :: r, cur => pathWrites tbl pathArgs r (cur ++ [encode tbl l])
  | .param n :: r, cur =>
    match lookup pathArgs n, pathWrites tbl pathArgs r [] with
    | some a, some rest => some ((if cur.isEmpty then [] else [.lit cur]) ++ .pathArg a.slot :: rest)
    | _, _ => none

/-- `add_query_arg` for each query argument, in declaration order: the key is encoded at expansion time -/
def queryWrites (tbl : List Nat) (queryArgs : List MArg) : List MCall :=
  queryArgs.map (fun a => .queryArg (encode tbl a.name) a.slot)

def writes (tbl : List Nat) (tmpl : List Comp) (pathArgs queryArgs : List MArg) : Option (List MCall) :=
  (pathWrites tbl pathArgs tmpl []).map (· ++ queryWrites tbl queryArgs)

/-- performing one statement with the texts the argument's encoder returned -/
def perform (vals : Nat → List Bytes) : MCall → List Push
  | .lit segs => [.literal segs]
  | .pathArg s => (vals s).map .pathParam
  | .queryArg k s => (vals s).map (.queryParam k)

def pushes (vals : Nat → List Bytes) (cs : List MCall) : List Push := cs.flatMap (perform vals)

/-! ### line protocol: `macro <template> <P|Q>:<name>:<v,v,…|->…` -/
open ConjureVerif.Hex

def unhexAll : List String → Option (List Bytes)
  | [] => some []
  | s :: r => match unhex s, unhexAll r with
    | some b, some bs => some (b :: bs)
    | _, _ => none

def rdVals (s : String) : Option (List Bytes) :=
  if s == "-" then some [] else unhexAll (s.splitOn ",")

/-- arguments in declaration order; the slot is the position among all of them -/
def rdArgs : List String → Nat → Option (List (Bool × MArg × List Bytes))
  | [], _ => some []
  | t :: r, i =>
    match t.splitOn ":" with
    | [k, n, vs] =>
      match unhex n, rdVals vs, rdArgs r (i + 1) with
      | some n, some vs, some rest =>
        if k == "P" then some ((true, ⟨n, i⟩, vs) :: rest)
        else if k == "Q" then some ((false, ⟨n, i⟩, vs) :: rest)
        else none
      | _, _, _ => none
    | _ => none

def handle (tbl : List Nat) : List String → String
  | "macro" :: t :: args =>
    match (if t == "-" then some [] else unhex t), rdArgs args 0 with
    | some t, some as =>
      match parse t with
      | none => "bad-template"
      | some comps =>
        let pas := (as.filter (·.1)).map (·.2.1)
        let qas := (as.filter (fun a => !a.1)).map (·.2.1)
        match writes tbl comps pas qas with
        | none => "no-such-argument"
        | some cs =>
          let vals := fun i => ((as.find? (fun a => a.2.1.slot == i)).map (·.2.2)).getD []
          match build tbl (pushes vals cs) with
          | .uri bytes => showUri bytes
          | .panic => "panic"
    | _, _ => "bad-op"
  | _ => "bad-op"

end ConjureVerif.MacroEmit
