import ConjureVerif.Model.Sexp
/-
C20 — the generator as a function of (IR, configuration) whose only unordered containers are hash maps.

`conjure-codegen` keeps its type table (`Context.types`) and, per endpoint, a path-parameter table in
`std::collections::HashMap`, whose iteration order depends on a per-process random seed.  Everything the generator
*emits* is driven by the IR's own `Vec`s (types, errors, services, fields, endpoints, arguments, in document order)
and by `BTreeMap`s (submodules, dependencies, in key order).  The model therefore is: an association list in an
arbitrary order for each hash map, used only through `lookup`; a module trie whose submodules are kept sorted; and
a renderer that walks types in insertion order and submodules in key order.
-/
namespace ConjureVerif.GenOrder

/-- a hash map: some enumeration of its entries; nothing may depend on which -/
abbrev Table (κ ν : Type) := List (κ × ν)

def Table.get {κ ν : Type} [BEq κ] (t : Table κ ν) (k : κ) : Option ν := t.lookup k

mutual
/-- the module trie of `conjure-codegen/src/lib.rs`: `types` in insertion (IR) order, `submodules` a `BTreeMap` -/
inductive Trie
  | node (types : List (String × String)) (subs : Subs)
inductive Subs
  | nil
  | cons (name : String) (t : Trie) (rest : Subs)
end

def Trie.empty : Trie := .node [] .nil

mutual
/-- `ModuleTrie::insert` -/
def Trie.insert : List String → String × String → Trie → Trie
  | [], ty, .node types subs => .node (types ++ [ty]) subs
  | m :: rest, ty, .node types subs => .node types (Subs.insert m rest ty subs)
/-- `BTreeMap::entry(m).or_insert_with(new).insert(rest, ty)` on the key-sorted submodule list -/
def Subs.insert : String → List String → String × String → Subs → Subs
  | m, rest, ty, .nil => .cons m (Trie.insert rest ty (.node [] .nil)) .nil
  | m, rest, ty, .cons k t more =>
    if m < k then .cons m (Trie.insert rest ty (.node [] .nil)) (.cons k t more)
    else if m = k then .cons k (Trie.insert rest ty t) more
    else .cons k t (Subs.insert m rest ty more)
end

def Subs.names : Subs → List String
  | .nil => []
  | .cons k _ more => k :: Subs.names more

/-- `ModuleTrie::type_module_name`'s loop: while a submodule of the same module goes by the name, append `_`
(fuel: one more than there are submodules — `fresh_not_mem` shows that this many rounds always reach a free name) -/
def fresh : Nat → List String → String → String
  | 0, _, t => t
  | n + 1, taken, t => if taken.contains t then fresh n taken (t ++ "_") else t

/-- the module a type is written to, given the submodules beside it -/
def typeModule (subs : List String) (t : String) : String := fresh (subs.length + 1) subs t

mutual
/-- `ModuleTrie::render`: one file per type, then the submodules in key order, then `mod.rs`; returns
(path components beneath the output directory, contents) in the order files are written -/
def Trie.render : Trie → List String → List (List String × String)
  | .node types subs, dir =>
    types.map (fun t => (dir ++ [typeModule (Subs.names subs) t.1 ++ ".rs"], t.2)) ++ Subs.render subs dir ++
      [(dir ++ ["mod.rs"], ", ".intercalate (types.map (fun t => typeModule (Subs.names subs) t.1) ++ Subs.names subs))]
def Subs.render : Subs → List String → List (List String × String)
  | .nil, _ => []
  | .cons name t rest, dir => Trie.render t (dir ++ [name]) ++ Subs.render rest dir
end

/-- one generated item: its module path and its module (file) name -/
structure Item where
  modulePath : List String
  name : String

/-- the generator: items in IR order, each emitted with access to the table through `get` only -/
def generate {κ ν : Type} [BEq κ] (table : Table κ ν) (items : List Item)
    (emit : (κ → Option ν) → Item → String) : List (List String × String) :=
  (items.foldl (fun t it => Trie.insert it.modulePath (it.name, emit table.get it) t) Trie.empty).render []

/-- `ModuleTrie::render(dir, lib_root)`: as `Trie.render`, the root file being `lib.rs` when `lib_root` -/
def Trie.renderRoot (lib : Bool) : Trie → List String → List (List String × String)
  | .node types subs, dir =>
    types.map (fun t => (dir ++ [typeModule (Subs.names subs) t.1 ++ ".rs"], t.2)) ++ Subs.render subs dir ++
      [(dir ++ [if lib then "lib.rs" else "mod.rs"],
        ", ".intercalate (types.map (fun t => typeModule (Subs.names subs) t.1) ++ Subs.names subs))]

/-- `generate_files_inner` for a full crate (`Config::build_crate`): the manifest and the formatter configuration in
the output directory itself, the module tree beneath `src` with `lib.rs` as its root -/
def generateCrate {κ ν : Type} [BEq κ] (table : Table κ ν) (items : List Item)
    (emit : (κ → Option ν) → Item → String) (manifest : String) : List (List String × String) :=
  [(["Cargo.toml"], manifest), (["rustfmt.toml"], "disable_all_formatting = true\n")] ++
  (items.foldl (fun t it => Trie.insert it.modulePath (it.name, emit table.get it) t) Trie.empty).renderRoot true ["src"]

def badChar (c : Char) : Bool := c == '/' || c == '\\' || c == '\x00'

/-- a path component that stays beneath the directory it is joined to: non-empty, no separator, not `.`/`..` -/
def safeComponent (s : String) : Bool :=
  !s.toList.isEmpty && s.toList != ['.'] && s.toList != ['.', '.'] && !s.toList.any badChar

/-- `k` underscores -/
def us (k : Nat) : String := String.ofList (List.replicate k '_')

mutual
/-- the (unrenamed) module names of all types in the trie -/
def Trie.typeNames : Trie → List String
  | .node types subs => types.map (·.1) ++ Subs.typeNames subs
def Subs.typeNames : Subs → List String
  | .nil => []
  | .cons _ t more => Trie.typeNames t ++ Subs.typeNames more
end

mutual
/-- the names of all submodules in the trie -/
def Trie.modNames : Trie → List String
  | .node _ subs => Subs.modNames subs
def Subs.modNames : Subs → List String
  | .nil => []
  | .cons k t more => k :: Trie.modNames t ++ Subs.modNames more
end

/-! ### line protocol: the file tree for a list of items
`tree (items,(i,(m,<hex>…),<hex name>)…)` → the written paths, in writing order, `/`-joined and `;`-separated -/
open ConjureVerif.Sexp

def hexStr (h : String) : Option String :=
  (Hex.unhex h).bind (fun bs => if bs.all (· < 128) then some (String.ofList (bs.map (fun b => Char.ofNat b))) else none)

def rdComps : List Sexp → Option (List String)
  | [] => some []
  | .atom h :: r => match hexStr h, rdComps r with
    | some c, some cs => some (c :: cs)
    | _, _ => none
  | _ => none

def rdItems : List Sexp → Option (List Item)
  | [] => some []
  | .list [.atom "i", .list (.atom "m" :: comps), .atom n] :: r =>
    match rdComps comps, hexStr n, rdItems r with
    | some m, some n, some is => some ({ modulePath := m, name := n } :: is)
    | _, _, _ => none
  | _ => none

def handle : List String → String
  | ["tree", items] =>
    match parse items with
    | some (.list (.atom "items" :: is)) =>
      (match rdItems is with
        | some items =>
          let files := generate ([] : Table Nat Nat) items (fun _ _ => "")
          -- (sorted: the harness reads the tree back from the file system, which has no writing order)
          ";".intercalate ((files.map (fun f => "/".intercalate f.1)).toArray.qsort (· < ·)).toList
        | none => "bad-op")
    | _ => "bad-op"
  | ["crate", items] =>
    match parse items with
    | some (.list (.atom "items" :: is)) =>
      (match rdItems is with
        | some items =>
          let files := generateCrate ([] : Table Nat Nat) items (fun _ _ => "") ""
          ";".intercalate ((files.map (fun f => "/".intercalate f.1)).toArray.qsort (· < ·)).toList
        | none => "bad-op")
    | _ => "bad-op"
  | _ => "bad-op"

end ConjureVerif.GenOrder
