import ConjureVerif.Model.Hex
/-
Compact S-expressions for the line protocol: atoms `[^(),]+`, lists `(a,b,(c,d))`.
-/
namespace ConjureVerif.Sexp

inductive Sexp
  | atom (s : String)
  | list (xs : List Sexp)
deriving Repr

inductive Tok
  | lp | rp | comma | atom (s : String)
deriving Repr, BEq

def tokenize (cs : List Char) : List Tok :=
  let rec go (cs : List Char) (cur : List Char) (acc : List Tok) : List Tok :=
    let flush := fun (acc : List Tok) => if cur.isEmpty then acc else Tok.atom (String.ofList cur.reverse) :: acc
    match cs with
    | [] => (flush acc).reverse
    | '(' :: r => go r [] (Tok.lp :: flush acc)
    | ')' :: r => go r [] (Tok.rp :: flush acc)
    | ',' :: r => go r [] (Tok.comma :: flush acc)
    | c :: r => go r (c :: cur) acc
  go cs [] []

/-- parse one expression; `fuel` bounds the number of steps -/
def parseOne : Nat → List Tok → Option (Sexp × List Tok)
  | 0, _ => none
  | _ + 1, .atom s :: r => some (.atom s, r)
  | f + 1, .lp :: r =>
    let rec items (g : Nat) (ts : List Tok) (acc : List Sexp) : Option (List Sexp × List Tok) :=
      match g, ts with
      | 0, _ => none
      | _ + 1, .rp :: r => some (acc.reverse, r)
      | g + 1, .comma :: r => items g r acc
      | g + 1, ts =>
        match parseOne f ts with
        | some (x, r) => items g r (x :: acc)
        | none => none
    (items (r.length + 1) r []).map (fun (xs, r) => (.list xs, r))
  | _, _ => none

def parse (s : String) : Option Sexp :=
  let toks := tokenize s.toList
  match parseOne (toks.length + 1) toks with
  | some (x, []) => some x
  | _ => none

end ConjureVerif.Sexp
