import ConjureVerif.Model.Hex
import ConjureVerif.Gen.Uri
/-
Model of the client URI builder (conjure-http/src/private/client/uri_builder.rs) and of the server's
decoding of path and query parameters (conjure-http/src/private/server.rs).  Text is bytes
(`List Nat`, each < 256).  The percent-encode set is a parameter `tbl`; the concrete one is
`Gen.Uri.component`, re-extracted from both copies in the source on every run.
-/
namespace ConjureVerif.Uri

/-- `percent_encoding`'s rule: every non-ASCII byte, and every ASCII byte in the set, is escaped -/
def inSet (tbl : List Nat) (b : Nat) : Bool := b ≥ 128 || tbl.contains b

/-- upper-case hex digit, as `percent_encoding` writes it -/
def hexDigit (n : Nat) : Nat := if n < 10 then 48 + n else 55 + n

def unhexD (c : Nat) : Option Nat :=
  if 48 ≤ c ∧ c ≤ 57 then some (c - 48)
  else if 65 ≤ c ∧ c ≤ 70 then some (c - 55)
  else if 97 ≤ c ∧ c ≤ 102 then some (c - 87)
  else none

/-- `utf8_percent_encode(value, set)` -/
def encode (tbl : List Nat) : List Nat → List Nat
  | [] => []
  | b :: bs =>
    if inSet tbl b then 37 :: hexDigit (b / 16) :: hexDigit (b % 16) :: encode tbl bs
    else b :: encode tbl bs

/-- `percent_decode` (a `%` not followed by two hex digits is kept literally) -/
def decode : List Nat → List Nat
  | 37 :: h :: l :: rest =>
    match unhexD h, unhexD l with
    | some a, some b => (a * 16 + b) :: decode rest
    | _, _ => 37 :: decode (h :: l :: rest)
  | b :: rest => b :: decode rest
  | [] => []

/-- `form_urlencoded` value decoding: `+` is a space, then percent-decoding -/
def plusToSpace (bs : List Nat) : List Nat := bs.map (fun b => if b = 43 then 32 else b)
def formDecode (bs : List Nat) : List Nat := decode (plusToSpace bs)

/-- split on a delimiter byte; always at least one piece -/
def splitOn (d : Nat) : List Nat → List (List Nat)
  | [] => [[]]
  | b :: bs =>
    if b = d then [] :: splitOn d bs
    else match splitOn d bs with
      | [] => [[b]]
      | s :: ss => (b :: s) :: ss

/-- split at the first occurrence of a delimiter -/
def splitFirst (d : Nat) : List Nat → List Nat × Option (List Nat)
  | [] => ([], none)
  | b :: bs =>
    if b = d then ([], some bs)
    else let (a, r) := splitFirst d bs; (b :: a, r)

/-! ### client side -/

/-- what a client method pushes, in order -/
inductive Push
  | literal (segs : List (List Nat))      -- `push_literal("/a/b")`: already-encoded constant segments
  | pathParam (v : List Nat)              -- `push_path_parameter_raw`
  | queryParam (k v : List Nat)           -- `push_query_parameter_raw` (key is written as given)

structure Builder where
  buf : List Nat := []
  inPath : Bool := true

def joinSegs (segs : List (List Nat)) : List Nat := (segs.map (fun s => 47 :: s)).flatten

def Builder.push (tbl : List Nat) (b : Builder) : Push → Builder
  | .literal segs => { b with buf := b.buf ++ joinSegs segs }
  | .pathParam v => { b with buf := b.buf ++ 47 :: encode tbl v }
  | .queryParam k v =>
    { buf := b.buf ++ (if b.inPath then 63 else 38) :: k ++ 61 :: encode tbl v, inPath := false }

def buildBuf (tbl : List Nat) (ps : List Push) : List Nat := (ps.foldl (Builder.push tbl) {}).buf

/-- `http::Uri`'s length limit (`u16::MAX - 1`): `build()` unwraps the parse result -/
def maxUriLen : Nat := 65534

inductive BuildResult
  | uri (bytes : List Nat)
  | panic

/-- `build()` unwraps `Uri::from_maybe_shared`: an empty buffer (`Empty`), a buffer that begins with the query
(`?k=v`, `InvalidFormat` — the pushes write nothing else that does not begin with `/`) and a buffer beyond the length
limit (`TooLong`) are refused there, and the unwrap panics -/
def build (tbl : List Nat) (ps : List Push) : BuildResult :=
  let b := buildBuf tbl ps
  match b with
  | 47 :: _ => if b.length ≤ maxUriLen then .uri b else .panic
  | _ => .panic

/-! ### server side -/

/-- path and query of a request target without a fragment -/
def pathOf (uri : List Nat) : List Nat := (splitFirst 63 uri).1
def queryOf (uri : List Nat) : Option (List Nat) := (splitFirst 63 uri).2

/-- raw path segments as a router sees them (the text after each `/`) -/
def rawSegments (uri : List Nat) : List (List Nat) := (splitOn 47 (pathOf uri)).tail

/-- `path_param`: the raw value of one parameter is split on `/` and each piece percent-decoded -/
def pathParam (raw : List Nat) : List (List Nat) := (splitOn 47 raw).map decode

/-- `form_urlencoded::parse`: pieces between `&`, empty pieces skipped, split at the first `=` -/
def parseQuery (q : List Nat) : List (List Nat × List Nat) :=
  ((splitOn 38 q).filter (fun p => !p.isEmpty)).map (fun p =>
    let (k, v) := splitFirst 61 p
    (formDecode k, formDecode (v.getD [])))

/-! ### line protocol -/
open ConjureVerif.Hex

def parsePush (tok : String) : Option Push :=
  match tok.splitOn ":" with
  | ["L", h] => (unhex h).map (fun bs => Push.literal (splitOn 47 bs).tail)
  | ["P", h] => (unhex h).map Push.pathParam
  | ["Q", k, v] => match unhex k, unhex v with
    | some k, some v => some (Push.queryParam k v)
    | _, _ => none
  | _ => none

def parsePushes : List String → Option (List Push)
  | [] => some []
  | t :: ts => match parsePush t, parsePushes ts with
    | some p, some ps => some (p :: ps)
    | _, _ => none

/-- group query pairs by key (keys sorted, values in order of appearance) -/
def groupPairs (ps : List (List Nat × List Nat)) : List (List Nat × List (List Nat)) :=
  let keys := sortBy bytesLt (ps.map (·.1)).eraseDups
  keys.map (fun k => (k, (ps.filter (fun p => p.1 == k)).map (·.2)))

def showUri (bytes : List Nat) : String :=
  let segs := (rawSegments bytes).map (fun s => String.intercalate "," ((pathParam s).map hex))
  let q := match queryOf bytes with
    | none => "none"
    | some q => hex q
  let pairs := match queryOf bytes with
    | none => []
    | some q => (groupPairs (parseQuery q)).map (fun kv => hex kv.1 ++ "=" ++ String.intercalate "," (kv.2.map hex))
  s!"uri path={hex (pathOf bytes)} query={q} segs={String.intercalate "/" segs} pairs={String.intercalate "&" pairs}"

def handle : List String → String
  | "uri" :: toks =>
    match parsePushes toks with
    | some ps => match build Gen.Uri.component ps with
      | .uri bytes => showUri bytes
      | .panic => "panic"
    | none => "bad-op"
  | ["enc", h] => match unhex h with
    | some bs => hex (encode Gen.Uri.component bs)
    | none => "bad-op"
  | ["dec", h] => match unhex h with
    | some bs => hex (decode bs)
    | none => "bad-op"
  | ["formdec", h] => match unhex h with
    | some bs => hex (formDecode bs)
    | none => "bad-op"
  | _ => "bad-op"

end ConjureVerif.Uri
