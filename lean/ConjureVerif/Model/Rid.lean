import ConjureVerif.Model.Hex
import ConjureVerif.Model.Uri
/-
Model of `ResourceIdentifier` (conjure-object/src/resource_identifier/mod.rs): an executable
recogniser for the language of `PARSE_REGEX` that also returns the three capture-group ends the Rust
code stores, `from_components` with its dot pre-check, and the component accessors.
-/
namespace ConjureVerif.Rid
open ConjureVerif.Uri (splitOn)

def lower (b : Nat) : Bool := 97 ≤ b && b ≤ 122
def digit (b : Nat) : Bool := 48 ≤ b && b ≤ 57
def upper (b : Nat) : Bool := 65 ≤ b && b ≤ 90
/-- `[a-z0-9\-]` -/
def tailChar (b : Nat) : Bool := lower b || digit b || b == 45
/-- `[a-zA-Z0-9_\-\.]` -/
def locChar (b : Nat) : Bool := lower b || upper b || digit b || b == 95 || b == 45 || b == 46

/-- `[a-z][a-z0-9\-]*` (service and type) -/
def svcOk : List Nat → Bool
  | [] => false
  | b :: bs => lower b && bs.all tailChar

/-- `([a-z0-9][a-z0-9\-]*)?` -/
def instOk : List Nat → Bool
  | [] => true
  | b :: bs => (lower b || digit b) && bs.all tailChar

/-- `[a-zA-Z0-9_\-\.]+` -/
def locOk (l : List Nat) : Bool := !l.isEmpty && l.all locChar

def joinDots : List (List Nat) → List Nat
  | [] => []
  | [p] => p
  | p :: q :: ps => p ++ 46 :: joinDots (q :: ps)

structure Parsed where
  rid : List Nat
  service : List Nat
  instance_ : List Nat
  type_ : List Nat
  locator : List Nat

/-- `FromStr`: the regex's language; service, instance and type cannot contain `.`, so the first four
    dots delimit them and the locator is everything after the fourth -/
def parse (s : List Nat) : Option Parsed :=
  match splitOn 46 s with
  | ri :: svc :: inst :: typ :: l :: ls =>
    let loc := joinDots (l :: ls)
    if ri == [114, 105] && svcOk svc && instOk inst && svcOk typ && locOk loc then
      some { rid := s, service := svc, instance_ := inst, type_ := typ, locator := loc }
    else none
  | _ => none

def render (svc inst typ loc : List Nat) : List Nat :=
  [114, 105, 46] ++ svc ++ 46 :: inst ++ 46 :: typ ++ 46 :: loc

/-- `from_components`: reject a `.` in service, instance or type, then format and parse -/
def fromComponents (svc inst typ loc : List Nat) : Option Parsed :=
  if svc.contains 46 || inst.contains 46 || typ.contains 46 then none
  else parse (render svc inst typ loc)

open ConjureVerif.Hex in
def showParsed : Option Parsed → String
  | some p => s!"ok {hex p.rid} {hex p.service} {hex p.instance_} {hex p.type_} {hex p.locator}"
  | none => "err"

open ConjureVerif.Hex in
def handle : List String → String
  | ["rid", h] => match unhex h with
    | some s => showParsed (parse s)
    | none => "bad-op"
  | ["ridc", a, b, c, d] => match unhex a, unhex b, unhex c, unhex d with
    | some a, some b, some c, some d => showParsed (fromComponents a b c d)
    | _, _, _, _ => "bad-op"
  | _ => "bad-op"

end ConjureVerif.Rid
