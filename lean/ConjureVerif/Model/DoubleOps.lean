import ConjureVerif.Model.Sexp
/-
Model of `DoubleOps` (conjure-object/src/private.rs) and `DoubleKey` (double_key.rs), generic in the
element operations exactly as the Rust impls are.  A double is `nan` or a number identified by `k`, the
order-preserving integer image of its bit pattern with both zeros mapped to 0 (the harness computes
`k`); this is all `OrderedFloat`'s `Eq`/`Ord`/`Hash` depend on.
-/
namespace ConjureVerif.DoubleOps

inductive D
  | nan
  | num (k : Int)
deriving DecidableEq, Repr

/-- what is written to the hasher -/
inductive Word
  | dbl (d : D)          -- canonical bits of a double: all NaNs alike, both zeros alike
  | disc (n : Nat)       -- an enum discriminant
  | len (n : Nat)        -- a length prefix
  | key (k : Int)        -- an ordinary (non-double) key
deriving DecidableEq, Repr

/-- three-way comparison of integers -/
def icmp (x y : Int) : Ordering := if x < y then .lt else if x = y then .eq else .gt

structure Ops (α : Type) where
  eq : α → α → Bool
  cmp : α → α → Ordering
  hash : α → List Word

/-- `impl DoubleOps for f64` / `DoubleKey`: `OrderedFloat` — NaN equals NaN and is greatest -/
def f64Ops : Ops D where
  eq a b := decide (a = b)
  cmp a b := match a, b with
    | .nan, .nan => .eq
    | .nan, .num _ => .gt
    | .num _, .nan => .lt
    | .num x, .num y => icmp x y
  hash a := [.dbl a]

/-- `impl DoubleOps for Option<T>` -/
def optOps {α : Type} (o : Ops α) : Ops (Option α) where
  eq a b := match a, b with
    | some x, some y => o.eq x y
    | none, none => true
    | _, _ => false
  cmp a b := match a, b with
    | some x, some y => o.cmp x y
    | some _, none => .gt
    | none, some _ => .lt
    | none, none => .eq
  hash a := match a with
    | none => [.disc 0]
    | some x => .disc 1 :: o.hash x

def vecCmp {α : Type} (o : Ops α) : List α → List α → Ordering
  | [], [] => .eq
  | [], _ :: _ => .lt
  | _ :: _, [] => .gt
  | x :: xs, y :: ys => match o.cmp x y with
    | .eq => vecCmp o xs ys
    | c => c

def vecEq {α : Type} (o : Ops α) : List α → List α → Bool
  | [], [] => true
  | x :: xs, y :: ys => o.eq x y && vecEq o xs ys
  | _, _ => false

/-- `impl DoubleOps for Vec<T>`: lexicographic, length as tie-break; length is hashed first -/
def vecOps {α : Type} (o : Ops α) : Ops (List α) where
  eq := vecEq o
  cmp := vecCmp o
  hash a := .len a.length :: a.flatMap o.hash

/-- one `(key, DoubleOpsWrapper(value))` pair: key first -/
def pairOps {α : Type} (o : Ops α) : Ops (Int × α) where
  eq a b := decide (a.1 = b.1) && o.eq a.2 b.2
  cmp a b := match icmp a.1 b.1 with
    | .eq => o.cmp a.2 b.2
    | c => c
  hash a := .key a.1 :: o.hash a.2

/-- `impl DoubleOps for BTreeMap<K, V>`: the entries in key order, compared as sequences of pairs -/
def mapOps {α : Type} (o : Ops α) : Ops (List (Int × α)) := vecOps (pairOps o)

/-- a struct with two parts (derive / educe compare field by field, in order) -/
def prodOps {α β : Type} (oa : Ops α) (ob : Ops β) : Ops (α × β) where
  eq a b := oa.eq a.1 b.1 && ob.eq a.2 b.2
  cmp a b := match oa.cmp a.1 b.1 with
    | .eq => ob.cmp a.2 b.2
    | c => c
  hash a := oa.hash a.1 ++ ob.hash a.2

/-- an enum with two variants (derive compares the discriminant, then the payload) -/
def sumOps {α β : Type} (oa : Ops α) (ob : Ops β) : Ops (Sum α β) where
  eq a b := match a, b with
    | .inl x, .inl y => oa.eq x y
    | .inr x, .inr y => ob.eq x y
    | _, _ => false
  cmp a b := match a, b with
    | .inl x, .inl y => oa.cmp x y
    | .inr x, .inr y => ob.cmp x y
    | .inl _, .inr _ => .lt
    | .inr _, .inl _ => .gt
  hash a := match a with
    | .inl x => .disc 0 :: oa.hash x
    | .inr x => .disc 1 :: ob.hash x

/-- a leaf with a derived (ordinary) total order: strings, integers, … — abstracted to an integer key -/
def keyOps : Ops Int where
  eq a b := decide (a = b)
  cmp a b := icmp a b
  hash a := [.key a]

/-- `BTreeSet`/`BTreeMap` lookup and insertion as they use `Ord::cmp` only: a sorted list walked left to right -/
def sfind {α : Type} (o : Ops α) (x : α) : List α → Bool
  | [] => false
  | y :: ys => match o.cmp x y with
    | .lt => false
    | .eq => true
    | .gt => sfind o x ys

def sins {α : Type} (o : Ops α) (x : α) : List α → List α
  | [] => [x]
  | y :: ys => match o.cmp x y with
    | .lt => x :: y :: ys
    | .eq => y :: ys
    | .gt => y :: sins o x ys

/-! ### line protocol: a small closed universe of shapes over these combinators -/
inductive Shape
  | f | k | opt (s : Shape) | vec (s : Shape) | map (s : Shape) | prod (a b : Shape) | sum (a b : Shape)
deriving Repr

def Shape.carrier : Shape → Type
  | .f => D
  | .k => Int
  | .opt s => Option s.carrier
  | .vec s => List s.carrier
  | .map s => List (Int × s.carrier)
  | .prod a b => a.carrier × b.carrier
  | .sum a b => Sum a.carrier b.carrier

def Shape.ops : (s : Shape) → Ops s.carrier
  | .f => f64Ops
  | .k => keyOps
  | .opt s => optOps s.ops
  | .vec s => vecOps s.ops
  | .map s => mapOps s.ops
  | .prod a b => prodOps a.ops b.ops
  | .sum a b => sumOps a.ops b.ops

open ConjureVerif.Sexp

def readShape : Nat → Sexp → Option Shape
  | 0, _ => none
  | _ + 1, .list [.atom "f"] => some .f
  | _ + 1, .list [.atom "k"] => some .k
  | n + 1, .list [.atom "opt", s] => (readShape n s).map Shape.opt
  | n + 1, .list [.atom "vec", s] => (readShape n s).map Shape.vec
  | n + 1, .list [.atom "map", s] => (readShape n s).map Shape.map
  | n + 1, .list [.atom "prod", a, b] =>
    match readShape n a, readShape n b with
    | some a, some b => some (.prod a b)
    | _, _ => none
  | n + 1, .list [.atom "sum", a, b] =>
    match readShape n a, readShape n b with
    | some a, some b => some (.sum a b)
    | _, _ => none
  | _, _ => none

def readD (s : String) : Option D := if s == "nan" then some .nan else s.toInt?.map D.num

def readValue : Nat → (s : Shape) → Sexp → Option s.carrier
  | 0, _, _ => none
  | _ + 1, .f, .list [.atom "f", .atom x] => readD x
  | _ + 1, .k, .list [.atom "k", .atom x] => x.toInt?
  | _ + 1, .opt _, .list [.atom "none"] => some none
  | n + 1, .opt s, .list [.atom "some", v] => (readValue n s v).map some
  | n + 1, .vec s, .list (.atom "vec" :: vs) =>
    vs.foldr (fun v acc => match readValue n s v, acc with
      | some x, some l => some (x :: l)
      | _, _ => none) (some [])
  | n + 1, .map s, .list (.atom "map" :: es) =>
    es.foldr (fun e acc => match e, acc with
      | .list [.atom "e", .atom k, v], some l =>
        (match k.toInt?, readValue n s v with
          | some k, some x => some ((k, x) :: l)
          | _, _ => none)
      | _, _ => none) (some [])
  | n + 1, .prod a b, .list [.atom "prod", x, y] =>
    match readValue n a x, readValue n b y with
    | some x, some y => some (x, y)
    | _, _ => none
  | n + 1, .sum a _, .list [.atom "inl", x] => (readValue n a x).map Sum.inl
  | n + 1, .sum _ b, .list [.atom "inr", y] => (readValue n b y).map Sum.inr
  | _, _, _ => none

def showOrd : Ordering → String
  | .lt => "-1" | .eq => "0" | .gt => "1"

def handle : List String → String
  | ["ops", shape, a, b] =>
    match (parse shape).bind (readShape 50) with
    | some s =>
      (match (parse a).bind (readValue 100 s), (parse b).bind (readValue 100 s) with
        | some x, some y =>
          let o := s.ops
          s!"eq={if o.eq x y then 1 else 0} cmp={showOrd (o.cmp x y)} heq={if o.hash x == o.hash y then 1 else 0}"
        | _, _ => "bad-op")
    | none => "bad-op"
  | ["set", shape, xs, x] =>
    -- insert `x` into the sorted set built from `xs` (by repeated insertion), then look every member up again
    match (parse shape).bind (readShape 50) with
    | some s =>
      (match (parse xs).bind (readValue 100 (.vec s)), (parse x).bind (readValue 100 s) with
        | some l, some v =>
          let o := s.ops
          let set := sins o v (l.foldl (fun acc y => sins o y acc) [])
          s!"len={set.length} found={if sfind o v set then 1 else 0} all={if l.all (fun y => sfind o y set) then 1 else 0}"
        | _, _ => "bad-op")
    | none => "bad-op"
  | ["noop"] => "noop"
  | _ => "bad-op"

end ConjureVerif.DoubleOps
