import ConjureVerif.Model.Sexp
/-
Model of where generated types hold other generated types by value and where behind a `Box`
(conjure-codegen/src/context.rs `needs_box`, `ref_needs_box`, `boxed_rust_type`, `ref_boxed_rust_type`, `rust_type`;
objects.rs / unions.rs use `boxed_rust_type` for fields and variants, aliases.rs uses `rust_type` for the wrapped
type).  "Types recursive through optionals and collections" compile only if no type contains itself by value; the
theorem (Lemmas/Boxing.lean) is that the by-value relation the generator produces has no cycle.
Collections (`Vec`, `BTreeSet`, `BTreeMap`) keep their elements on the heap whatever they are, so they are leaves here.
-/
namespace ConjureVerif.Boxing

inductive BTy
  | prim
  | coll
  | optional (t : BTy)
  | ref (n : Nat)
  | ext (fallback : BTy)
deriving DecidableEq, Repr

inductive BDef
  | alias (t : BTy)
  | enum
  | object (fields : List BTy)
  | union (fields : List BTy)
deriving Repr

abbrev Defs := List BDef

/-- `needs_box`, given the answer `r` of `ref_needs_box` for each type name -/
def needsBoxT (r : Nat → Bool) : BTy → Bool
  | .prim => false
  | .coll => false
  | .optional t => needsBoxT r t
  | .ref n => r n
  | .ext fb => needsBoxT r fb

/-- `ref_needs_box`: objects and unions are boxed, enums are not, an alias as what it wraps (fuel: one per alias
followed) -/
def needsBoxN (defs : Defs) : Nat → Nat → Bool
  | 0, n =>
    match defs[n]? with
    | some (.object _) => true
    | some (.union _) => true
    | _ => false
  | f + 1, n =>
    match defs[n]? with
    | some (.alias t) => needsBoxT (needsBoxN defs f) t
    | some (.object _) => true
    | some (.union _) => true
    | _ => false

/-- `ref_boxed_rust_type`: whether a reference to `n`, written in a field of an object (`inUnion = false`) or in a
variant of a union, is wrapped in `Box` -/
def refBoxed (defs : Defs) (fuel : Nat) (inUnion : Bool) (n : Nat) : Bool :=
  match defs[n]? with
  | some (.alias t) => needsBoxT (needsBoxN defs fuel) t
  | some (.object _) => !inUnion
  | some (.union _) => true
  | _ => false

/-- `boxed_rust_type`: the type names a field or variant of this type holds by value -/
def inlineRefs (defs : Defs) (fuel : Nat) (inUnion : Bool) : BTy → List Nat
  | .prim => []
  | .coll => []
  | .optional t => inlineRefs defs fuel inUnion t
  | .ref n => if refBoxed defs fuel inUnion n then [] else [n]
  | .ext fb => inlineRefs defs fuel inUnion fb

/-- `rust_type`: what an alias's newtype holds by value (never boxed) -/
def aliasRefs : BTy → List Nat
  | .prim => []
  | .coll => []
  | .optional t => aliasRefs t
  | .ref n => [n]
  | .ext fb => aliasRefs fb

/-- the generated type `n` holds these generated types by value -/
def succ (defs : Defs) (fuel : Nat) (n : Nat) : List Nat :=
  match defs[n]? with
  | some (.alias t) => aliasRefs t
  | some (.object fs) => fs.flatMap (inlineRefs defs fuel false)
  | some (.union fs) => fs.flatMap (inlineRefs defs fuel true)
  | _ => []

/-- the box flags of the references a field type holds outside collections, in order (what can be read back from the
emitted type: `Option<Box<T>>` / `Box<T>` against `Option<T>` / `T`) -/
def boxFlags (defs : Defs) (fuel : Nat) (inUnion : Bool) : BTy → List Bool
  | .prim => []
  | .coll => []
  | .optional t => boxFlags defs fuel inUnion t
  | .ref n => [refBoxed defs fuel inUnion n]
  | .ext fb => boxFlags defs fuel inUnion fb

/-! ### line protocol: `boxing (defs,<def>…)` with `<def>` = `(a,<ty>)`, `(e)`, `(o,<ty>…)`, `(u,<ty>…)` and `<ty>` =
`p`, `c`, `(opt,<ty>)`, `(r,<n>)`, `(x,<ty>)`; answer: per object / union, per field, `1`/`0`/`-` -/
open ConjureVerif.Sexp

def rdTy : Nat → Sexp → Option BTy
  | 0, _ => none
  | _ + 1, .atom "p" => some .prim
  | _ + 1, .atom "c" => some .coll
  | f + 1, .list [.atom "opt", t] => (rdTy f t).map .optional
  | _ + 1, .list [.atom "r", .atom n] => n.toNat?.map .ref
  | f + 1, .list [.atom "x", t] => (rdTy f t).map .ext
  | _, _ => none

def rdTys (f : Nat) : List Sexp → Option (List BTy)
  | [] => some []
  | t :: r => match rdTy f t, rdTys f r with
    | some t, some ts => some (t :: ts)
    | _, _ => none

def rdDef : Sexp → Option BDef
  | .list [.atom "a", t] => (rdTy 64 t).map .alias
  | .list [.atom "e"] => some .enum
  | .list (.atom "o" :: fs) => (rdTys 64 fs).map .object
  | .list (.atom "u" :: fs) => (rdTys 64 fs).map .union
  | _ => none

def rdDefs : List Sexp → Option Defs
  | [] => some []
  | d :: r => match rdDef d, rdDefs r with
    | some d, some ds => some (d :: ds)
    | _, _ => none

def showFlags (l : List Bool) : String :=
  if l.isEmpty then "-" else String.join (l.map (fun b => if b then "1" else "0"))

def handle : List String → String
  | ["boxing", d] =>
    match parse d with
    | some (.list (.atom "defs" :: ds)) =>
      (match rdDefs ds with
        | some defs =>
          let fuel := defs.length + 1
          ";".intercalate (defs.map (fun
            | .object fs => "o:" ++ ",".intercalate (fs.map (fun t => showFlags (boxFlags defs fuel false t)))
            | .union fs => "u:" ++ ",".intercalate (fs.map (fun t => showFlags (boxFlags defs fuel true t)))
            | .alias _ => "a"
            | .enum => "e"))
        | none => "bad-op")
    | _ => "bad-op"
  | _ => "bad-op"

end ConjureVerif.Boxing
