import ConjureVerif.Model.SafeLong
import ConjureVerif.Lemmas.Dec
/-
C15 — No path ever produces a safelong outside the 53-bit safe range.

Property theorems only.  `Safe` is the specification's range, written independently of the code;
everything about the code enters through `Gen.SafeLong` (re-extracted on every run).
-/
set_option linter.unusedSimpArgs false
namespace ConjureVerif.C15
open ConjureVerif ConjureVerif.SafeLong

/-- the specification: `[-(2^53-1), 2^53-1]` -/
def Safe (v : Int) : Prop := -9007199254740991 ≤ v ∧ v ≤ 9007199254740991

/-- the numerals in `Safe` are `±(2^53 - 1)` -/
theorem safe_bound_is_two_pow_53_minus_one : (2 : Int) ^ 53 - 1 = 9007199254740991 := by decide

/-! #### instantiation lemmas: the extracted tables are what the proofs below rely on -/

theorem gen_extract_ok : Gen.SafeLong.extractOk = true := by decide

theorem gen_newCond_iff (v : Int) : Gen.SafeLong.newCond v = true ↔ Safe v := by
  unfold Gen.SafeLong.newCond Gen.SafeLong.minValue Gen.SafeLong.maxValue Safe
  simp only [Bool.and_eq_true, Bool.or_eq_true, Bool.not_eq_true', decide_eq_true_iff,
    decide_eq_false_iff_not, ge_iff_le, gt_iff_lt]
  try omega

theorem gen_from_widths_small : ∀ w ∈ Gen.SafeLong.fromWidths, w.2 ≤ 32 := by decide

/-- the raw constructor is applied only in the bounds, behind the check in `new`, and in `impl_from!` -/
theorem gen_raw_sites : Gen.SafeLong.rawConstructionSites =
    ["<SafeLong>.min_value", "<SafeLong>.max_value", "<SafeLong>.new", "macro:impl_from"] := by decide

theorem gen_routes_via_new : Gen.SafeLong.fromStrViaNew = true ∧
    Gen.SafeLong.deserializeViaI64ThenNew = true ∧ Gen.SafeLong.tryFromViaI64ThenNew = true ∧
    Gen.SafeLong.fromBodyIsI64From = true := by decide

/-! #### the property -/

/-- checked construction accepts exactly the safe range and keeps the value -/
theorem C15_new_iff (v s : Int) : SafeLong.new v = some s ↔ s = v ∧ Safe v := by
  unfold SafeLong.new
  by_cases h : Gen.SafeLong.newCond v = true
  · simp [h, (gen_newCond_iff v).mp h]; exact eq_comm
  · have : ¬ Safe v := fun hs => h ((gen_newCond_iff v).mpr hs)
    simp [h, this]

theorem safe_in_i64 {v : Int} (h : Safe v) : i64Of v = some v := by
  unfold i64Of Safe at *; rw [if_pos]; omega

theorem i64Of_eq {v s : Int} (h : i64Of v = some s) : s = v := by
  unfold i64Of at h; split at h <;> simp at h; exact h.symm

/-- an `i64` (or anything narrowed to one) passed to `new` -/
theorem i64_then_new_iff (v s : Int) : (i64Of v).bind SafeLong.new = some s ↔ s = v ∧ Safe v := by
  constructor
  · intro h
    cases hi : i64Of v with
    | none => simp [hi] at h
    | some x =>
      have := i64Of_eq hi; subst this
      simp [hi] at h; exact (C15_new_iff _ _).mp h
  · rintro ⟨rfl, hs⟩
    simp [safe_in_i64 hs]; exact (C15_new_iff _ _).mpr ⟨rfl, hs⟩

/-- checked conversion from any integer width -/
theorem C15_tryFrom_iff (v s : Int) : tryFrom v = some s ↔ s = v ∧ Safe v :=
  i64_then_new_iff v s

theorem pow_le_32 {n : Nat} (h : n ≤ 32) : (2 ^ n : Int) ≤ 4294967296 := by
  have : (2 ^ n : Nat) ≤ 2 ^ 32 := Nat.pow_le_pow_right (by omega) h
  have h2 : ((2 ^ n : Nat) : Int) ≤ ((2 ^ 32 : Nat) : Int) := Int.ofNat_le.mpr this
  simpa using h2

/-- unchecked conversions exist only for widths whose whole range is safe -/
theorem C15_from_widths_safe (w : Bool × Nat) (hw : w ∈ Gen.SafeLong.fromWidths) (v : Int)
    (hv : InWidth w v) : Safe (fromUnchecked v) := by
  have hb := gen_from_widths_small w hw
  have h1 := pow_le_32 hb
  have h2 : (2 ^ (w.2 - 1) : Int) ≤ 4294967296 := pow_le_32 (by omega)
  unfold InWidth at hv
  unfold Safe fromUnchecked
  split at hv <;> omega

/-- parsing text: sound, and complete on the canonical decimal text of every safe value -/
theorem C15_fromStr_sound (s : List Nat) (v : Int) (h : fromStr s = some v) : Safe v := by
  unfold fromStr at h
  cases hp : Dec.parseRust s with
  | none => simp [hp] at h
  | some x =>
    rw [hp] at h
    have := (i64_then_new_iff x v).mp (by simpa using h)
    rw [this.1]; exact this.2

theorem C15_fromStr_complete (v : Int) (h : Safe v) : fromStr (Dec.showInt v) = some v := by
  unfold fromStr
  simp [Dec.parseRust_showInt, safe_in_i64 h]
  exact (C15_new_iff _ _).mpr ⟨rfl, h⟩

/-- two different safelongs never have the same text (PLAIN, JSON key and JSON number all use this text) -/
theorem C15_text_injective (v w : Int) (hv : Safe v) (hw : Safe w) (e : Dec.showInt v = Dec.showInt w) : v = w := by
  have h1 := C15_fromStr_complete v hv
  rw [e, C15_fromStr_complete w hw] at h1
  exact (Option.some.inj h1).symm

theorem C15_fromStr_value (s : List Nat) (v : Int) (h : fromStr s = some v) :
    Dec.parseRust s = some v := by
  unfold fromStr at h
  cases hp : Dec.parseRust s with
  | none => simp [hp] at h
  | some x =>
    rw [hp] at h
    have := (i64_then_new_iff x v).mp (by simpa using h)
    rw [this.1]

theorem C15_json_sound (s : List Nat) (v : Int) (h : fromJsonInt s = some v) : Safe v := by
  unfold fromJsonInt at h
  cases hp : Dec.parseJson s with
  | none => simp [hp] at h
  | some x =>
    rw [hp] at h
    have := (i64_then_new_iff x v).mp (by simpa using h)
    rw [this.1]; exact this.2

theorem C15_json_complete (v : Int) (h : Safe v) : fromJsonInt (Dec.showInt v) = some v := by
  unfold fromJsonInt
  simp [Dec.parseJson_showInt, safe_in_i64 h]
  exact (C15_new_iff _ _).mpr ⟨rfl, h⟩

/-- a route's input is well-formed when it has the shape the route takes and, for the unchecked
    conversions, the integer really is a value of a width that has such a conversion -/
def WF : Route → Input → Prop
  | .fromW w, .int v => w ∈ Gen.SafeLong.fromWidths ∧ InWidth w v
  | _, _ => True

/-- **every route**: whatever the route and input, a produced safelong is in the safe range -/
theorem C15_every_route_safe (r : Route) (i : Input) (hwf : WF r i) (v : Int)
    (h : run r i = some v) : Safe v := by
  cases r <;> cases i <;> simp only [run, reduceCtorEq] at h
  case new.int x => have := (i64_then_new_iff x v).mp h; rw [this.1]; exact this.2
  case tryFrom.int x => have := (C15_tryFrom_iff x v).mp h; rw [this.1]; exact this.2
  case fromW.int w x =>
    have : v = x := by simpa [fromUnchecked] using h.symm
    subst this; exact C15_from_widths_safe w hwf.1 v hwf.2
  case fromStr.text s => exact C15_fromStr_sound s v h
  case plain.text s => exact C15_fromStr_sound s v h
  case jsonValue.text s => exact C15_json_sound s v h
  case jsonKey.text s => exact C15_json_sound s v h
  case smile.int x => have := (i64_then_new_iff x v).mp h; rw [this.1]; exact this.2
  case any.int x => have := (i64_then_new_iff x v).mp h; rw [this.1]; exact this.2

/-- **every route keeps the value**: integer routes return the integer they were given -/
theorem C15_every_route_value (r : Route) (x v : Int) (h : run r (.int x) = some v) : v = x := by
  cases r <;> simp only [run, reduceCtorEq] at h
  case fromW w => simpa [fromUnchecked] using h.symm
  case tryFrom => exact ((C15_tryFrom_iff x v).mp h).1
  all_goals exact ((i64_then_new_iff x v).mp h).1

/-- **every in-range integer is accepted** by every route, and keeps its value -/
theorem C15_every_route_accepts (x : Int) (hs : Safe x) :
    run .new (.int x) = some x ∧ run .tryFrom (.int x) = some x ∧
    run .smile (.int x) = some x ∧ run .any (.int x) = some x ∧
    run .fromStr (.text (Dec.showInt x)) = some x ∧ run .plain (.text (Dec.showInt x)) = some x ∧
    run .jsonValue (.text (Dec.showInt x)) = some x ∧ run .jsonKey (.text (Dec.showInt x)) = some x := by
  have hn := (i64_then_new_iff x x).mpr ⟨rfl, hs⟩
  simp only [run, tryFrom, hn, C15_fromStr_complete x hs, C15_json_complete x hs, and_self]

/-! #### non-vacuity -/
example : Safe 9007199254740991 ∧ ¬ Safe 9007199254740992 ∧ Safe (-9007199254740991) := by
  unfold Safe; omega
example : run .fromStr (.text [43, 48, 48, 55]) = some 7 := by decide
example : run .jsonKey (.text [48, 55]) = none := by decide
example : WF (.fromW (true, 32)) (.int (-2147483648)) := by unfold WF; decide

end ConjureVerif.C15
