import ConjureVerif.Lemmas.WrapUnknown
import ConjureVerif.Lemmas.WrapAfter
import ConjureVerif.Gen.UnknownFieldsSrc
import ConjureVerif.Gen.JsonDeServerSrc
import ConjureVerif.Gen.SmileDeServerSrc
import ConjureVerif.Gen.WrapTable
import ConjureVerif.Gen.JsonDeSrc
import ConjureVerif.Gen.SmileDeClientSrc
/-
C05 — Servers reject and clients ignore unknown object fields at every nesting depth.

`Inject ty d d' k` (Lemmas/WrapInject) says: `d'` is `d` plus one member named `k`, holding any
document, in an object that is read as a struct not declaring `k`, anywhere below optionals,
sequences, tuples, map values, newtypes (aliases), struct fields and enum-variant payloads.
-/
set_option linter.unusedSimpArgs false
namespace ConjureVerif.C05
open ConjureVerif ConjureVerif.Data ConjureVerif.Wrap

/-! #### instantiation -/

/-- the server deserializers of both formats are the wrapper chain with `UnknownFieldsBehavior`
    around the format's value behaviour; the client ones are not -/
theorem gen_server_behaviors :
    Gen.JsonDeServerSrc.hashes.lookup "de::Deserializer<'de> for &'amutServerDeserializer<R>::impl_deserialize_body!" = some 6916776558792606862 /- "&'amutserde_json::Deserializer<R>,UnknownFieldsBehavior<ValueBehavior>" -/ ∧
    Gen.SmileDeServerSrc.hashes.lookup "de::Deserializer<'de> for &'amutServerDeserializer<'de,R>::impl_deserialize_body!" = some 3095571778591537364 /- "&'amutserde_smile::Deserializer<'de,R>,UnknownFieldsBehavior<ValueBehavior>" -/ ∧
    Gen.JsonDeSrc.hashes.lookup "de::Deserializer<'de> for &'amutClientDeserializer<R>::impl_deserialize_body!" = some 14994026435428837345 /- "&'amutserde_json::Deserializer<R>,ValueBehavior" -/ ∧
    Gen.SmileDeClientSrc.hashes.lookup "de::Deserializer<'de> for &'amutClientDeserializer<'de,R>::impl_deserialize_body!" = some 16925310013538528895 /- "&'amutserde_smile::Deserializer<'de,R>,ValueBehavior" -/ := by
  decide +kernel

/-- every public entry point of both formats (`server_from_*` / `client_from_*`, one per input source:
    reader, str, slice, mut slice) builds the deserializer of its own side, reads one value through it and then
    requires the end of the input; each constructor only wraps the format's own deserializer -/
theorem gen_entry_points :
    Gen.JsonDeServerSrc.hashes.lookup "fn server_from_reader" = some 7523097036048896092 /- "{letmutde=ServerDeserializer::from_reader(reader);letvalue=T::deserialize(&mutde)?;de.end()?;Ok(value)}" -/ ∧
    Gen.JsonDeServerSrc.hashes.lookup "fn server_from_str" = some 15181452474860574692 /- "{letmutde=ServerDeserializer::from_str(s);letvalue=T::deserialize(&mutde)?;de.end()?;Ok(value)}" -/ ∧
    Gen.JsonDeServerSrc.hashes.lookup "fn server_from_slice" = some 9726012999506703783 /- "{letmutde=ServerDeserializer::from_slice(s);letvalue=T::deserialize(&mutde)?;de.end()?;Ok(value)}" -/ ∧
    Gen.JsonDeServerSrc.hashes.lookup "ServerDeserializer<IoRead<R>>::from_reader" = some 10251595329488348137 /- "{ServerDeserializer(serde_json::Deserializer::from_reader(reader))}" -/ ∧
    Gen.JsonDeServerSrc.hashes.lookup "ServerDeserializer<SliceRead<'a>>::from_slice" = some 405430658713935032 /- "{ServerDeserializer(serde_json::Deserializer::from_slice(bytes))}" -/ ∧
    Gen.JsonDeServerSrc.hashes.lookup "ServerDeserializer<StrRead<'a>>::from_str" = some 4795122866350345893 /- "{ServerDeserializer(serde_json::Deserializer::from_str(s))}" -/ ∧
    Gen.JsonDeServerSrc.hashes.lookup "ServerDeserializer<R>::end" = some 1737334758775072841 /- "{self.0.end()}" -/ ∧
    Gen.SmileDeServerSrc.hashes.lookup "fn server_from_reader" = some 7523097036048896092 /- "{letmutde=ServerDeserializer::from_reader(reader);letvalue=T::deserialize(&mutde)?;de.end()?;Ok(value)}" -/ ∧
    Gen.SmileDeServerSrc.hashes.lookup "fn server_from_slice" = some 9726012999506703783 /- "{letmutde=ServerDeserializer::from_slice(s);letvalue=T::deserialize(&mutde)?;de.end()?;Ok(value)}" -/ ∧
    Gen.SmileDeServerSrc.hashes.lookup "fn server_from_mut_slice" = some 4995850889360896672 /- "{letmutde=ServerDeserializer::from_mut_slice(s);letvalue=T::deserialize(&mutde)?;de.end()?;Ok(value)}" -/ ∧
    Gen.SmileDeServerSrc.hashes.lookup "ServerDeserializer<'_,IoRead<R>>::from_reader" = some 6593618484806081815 /- "{ServerDeserializer(serde_smile::Deserializer::from_reader(reader))}" -/ ∧
    Gen.SmileDeServerSrc.hashes.lookup "ServerDeserializer<'a,SliceRead<'a>>::from_slice" = some 14582929309990185278 /- "{ServerDeserializer(serde_smile::Deserializer::from_slice(bytes))}" -/ ∧
    Gen.SmileDeServerSrc.hashes.lookup "ServerDeserializer<'a,MutSliceRead<'a>>::from_mut_slice" = some 11885368390158098473 /- "{ServerDeserializer(serde_smile::Deserializer::from_mut_slice(bytes))}" -/ ∧
    Gen.SmileDeServerSrc.hashes.lookup "ServerDeserializer<'de,R>::end" = some 1737334758775072841 /- "{self.0.end()}" -/ ∧
    Gen.JsonDeSrc.hashes.lookup "fn client_from_reader" = some 11588487256068215368 /- "{letmutde=ClientDeserializer::from_reader(reader);letvalue=T::deserialize(&mutde)?;de.end()?;Ok(value)}" -/ ∧
    Gen.JsonDeSrc.hashes.lookup "fn client_from_str" = some 10162431175074099656 /- "{letmutde=ClientDeserializer::from_str(s);letvalue=T::deserialize(&mutde)?;de.end()?;Ok(value)}" -/ ∧
    Gen.JsonDeSrc.hashes.lookup "fn client_from_slice" = some 6675373267029626547 /- "{letmutde=ClientDeserializer::from_slice(s);letvalue=T::deserialize(&mutde)?;de.end()?;Ok(value)}" -/ ∧
    Gen.JsonDeSrc.hashes.lookup "ClientDeserializer<IoRead<R>>::from_reader" = some 15691795487078593245 /- "{ClientDeserializer(serde_json::Deserializer::from_reader(reader))}" -/ ∧
    Gen.JsonDeSrc.hashes.lookup "ClientDeserializer<SliceRead<'a>>::from_slice" = some 13399570450002846636 /- "{ClientDeserializer(serde_json::Deserializer::from_slice(bytes))}" -/ ∧
    Gen.JsonDeSrc.hashes.lookup "ClientDeserializer<StrRead<'a>>::from_str" = some 8534830568909394689 /- "{ClientDeserializer(serde_json::Deserializer::from_str(s))}" -/ ∧
    Gen.JsonDeSrc.hashes.lookup "ClientDeserializer<R>::end" = some 1737334758775072841 /- "{self.0.end()}" -/ ∧
    Gen.SmileDeClientSrc.hashes.lookup "fn client_from_reader" = some 11588487256068215368 /- "{letmutde=ClientDeserializer::from_reader(reader);letvalue=T::deserialize(&mutde)?;de.end()?;Ok(value)}" -/ ∧
    Gen.SmileDeClientSrc.hashes.lookup "fn client_from_slice" = some 6675373267029626547 /- "{letmutde=ClientDeserializer::from_slice(s);letvalue=T::deserialize(&mutde)?;de.end()?;Ok(value)}" -/ ∧
    Gen.SmileDeClientSrc.hashes.lookup "fn client_from_mut_slice" = some 190039742194988828 /- "{letmutde=ClientDeserializer::from_mut_slice(s);letvalue=T::deserialize(&mutde)?;de.end()?;Ok(value)}" -/ ∧
    Gen.SmileDeClientSrc.hashes.lookup "ClientDeserializer<'_,IoRead<R>>::from_reader" = some 8511477716685037707 /- "{ClientDeserializer(serde_smile::Deserializer::from_reader(reader))}" -/ ∧
    Gen.SmileDeClientSrc.hashes.lookup "ClientDeserializer<'a,SliceRead<'a>>::from_slice" = some 8821054405427350610 /- "{ClientDeserializer(serde_smile::Deserializer::from_slice(bytes))}" -/ ∧
    Gen.SmileDeClientSrc.hashes.lookup "ClientDeserializer<'a,MutSliceRead<'a>>::from_mut_slice" = some 16386632783192885981 /- "{ClientDeserializer(serde_smile::Deserializer::from_mut_slice(bytes))}" -/ ∧
    Gen.SmileDeClientSrc.hashes.lookup "ClientDeserializer<'de,R>::end" = some 1737334758775072841 /- "{self.0.end()}" -/ := by
  decide +kernel

/-- `UnknownFieldsBehavior`: struct deserialization is intercepted, the current key is recorded, and
    a request to ignore a value becomes `unknown_field(key)`; keys use the same behaviour -/
theorem gen_unknown_fields_behavior :
    Gen.UnknownFieldsSrc.hashes.lookup "Behavior for UnknownFieldsBehavior<B>::deserialize_struct" = some 12582298749013127255 /- "{B::deserialize_struct(de,name,fields,DelegatingVisitor::new(StructVisitor{fields},visitor),)}" -/ ∧
    Gen.UnknownFieldsSrc.hashes.lookup "Visitor2<'de,V> for StructVisitor::visit_map" = some 16346528810062829712 /- "{visitor.visit_map(StructMapAccess{map,fields:self.fields,key:None,})}" -/ ∧
    Gen.UnknownFieldsSrc.hashes.lookup "Deserializer2<'de,D> for ValueDeserializer<'de,'_>::deserialize_ignored_any" = some 9190212375268845044 /- "{letkey=matchself.key{Some(key)=>&**key,None=>\"<unknown>\",};Err(Error::unknown_field(key,self.fields))}" -/ := by
  decide +kernel

/-- the wrapper keeps the behaviour alive below every container (shared with C01) -/
theorem gen_de_struct_dispatch :
    Gen.WrapTable.deTable.contains ("Deserializer", "deserialize_struct", ["B"], ["deserialize_struct"]) = true ∧
    Gen.WrapTable.deTable.contains ("MapAccess", "next_value_seed", ["B"], []) = true ∧
    Gen.WrapTable.deTable.contains ("SeqAccess", "next_element_seed", ["B"], []) = true ∧
    Gen.WrapTable.deTable.contains ("Visitor", "visit_some", ["B"], []) = true ∧
    Gen.WrapTable.deTable.contains ("Visitor", "visit_newtype_struct", ["B"], []) = true ∧
    Gen.WrapTable.deTable.contains ("VariantAccess", "newtype_variant_seed", ["B"], []) = true ∧
    Gen.WrapTable.deTable.contains ("VariantAccess", "tuple_variant", ["B"], []) = true := by decide +kernel

/-! #### the property -/

/-- **servers reject**: a document the server accepts, given one extra undeclared member at any
    depth (whatever it holds), is rejected with an error naming that member -/
theorem C05_server_rejects (fmt : Fmt) (t : Ty) (d d' : Doc) (k : List Nat) (v : Val)
    (hok : de fmt .server t d = .ok v) (hinj : Inject t d d' k) :
    de fmt .server t d' = .error (.unknownField k) := srv fmt hinj v hok

/-- **clients ignore**: the client reads the document with the extra member exactly as it reads the
    document without it — same value, or same error -/
theorem C05_client_ignores (fmt : Fmt) (t : Ty) (d d' : Doc) (k : List Nat) (hinj : Inject t d d' k) :
    de fmt .client t d' = de fmt .client t d := cli fmt hinj

/-- any number of extra members, injected one after another -/
inductive InjectN : Ty → Doc → Doc → List (List Nat) → Prop
  | zero (t : Ty) (d : Doc) : InjectN t d d []
  | step (t : Ty) (d d1 d2 : Doc) (ks : List (List Nat)) (k : List Nat) :
      InjectN t d d1 ks → Inject t d1 d2 k → InjectN t d d2 (k :: ks)

theorem C05_client_ignores_many (fmt : Fmt) (t : Ty) (d d' : Doc) (ks : List (List Nat))
    (h : InjectN t d d' ks) : de fmt .client t d' = de fmt .client t d := by
  induction h with
  | zero => rfl
  | step d1 d2 ks k _ hi ih => rw [cli fmt hi, ih]

/-- **servers reject, any number of unknown members**: a document the server accepts, given one or more extra
undeclared members anywhere (one after another, at any depths), is rejected with an error naming one of them — the
one the reader meets first -/
theorem C05_server_rejects_many (fmt : Fmt) (t : Ty) (d d' : Doc) (ks : List (List Nat)) (v : Val)
    (hok : de fmt .server t d = .ok v) (h : InjectN t d d' ks) (hne : ks ≠ []) :
    ∃ k ∈ ks, de fmt .server t d' = .error (.unknownField k) := by
  induction h with
  | zero => exact absurd rfl hne
  | step d1 d2 ks k hn hi ih =>
    cases ks with
    | nil =>
      cases hn
      exact ⟨k, by simp, (srvA fmt hi).of_ok hok⟩
    | cons k0 ks0 =>
      obtain ⟨k', hk', he⟩ := ih (by simp)
      rcases srvA fmt hi with h | ⟨e, h1, h2⟩
      · exact ⟨k, by simp, h⟩
      · rw [he] at h1; cases h1
        exact ⟨k', List.mem_cons_of_mem _ hk', h2⟩

/-- **and whatever the server made of the document before**: an extra undeclared member never turns a rejection into
an acceptance, nor one error into an unrelated one -/
theorem C05_server_never_accepts_more (fmt : Fmt) (t : Ty) (d d' : Doc) (k : List Nat) (hinj : Inject t d d' k) :
    de fmt .server t d' = .error (.unknownField k) ∨ ∃ e, de fmt .server t d = .error e ∧ de fmt .server t d' = .error e :=
  srvA fmt hinj

/-- the round trip of C01 composed with injection: what a server wrote, plus unknown members, is
    still read by a client as the original value -/
theorem C05_client_reads_original (fmt : Fmt) (t : Ty) (v : Val) (hv : HasTy t v) (d d' : Doc)
    (ks : List (List Nat)) (hs : ser fmt t v = some d) (h : InjectN t d d' ks) :
    de fmt .client t d' = .ok v := by
  rw [C05_client_ignores_many fmt t d d' ks h]
  obtain ⟨d0, h1, h2⟩ := rt fmt .client hv
  rw [hs] at h1; cases h1; exact h2

/-! #### non-vacuity: {"a":[{"b":true}]} with "zz":null injected into the inner object -/
def exTy : Ty := .struct (.cons [97] (.seq (.struct (.cons [98] .bool .nil))) .nil)
def exDoc : Doc := .obj (.cons (.text [97]) (.arr (.cons (.obj (.cons (.text [98]) (.bool true) .nil)) .nil)) .nil)
def exDoc' : Doc :=
  .obj (.cons (.text [97]) (.arr (.cons (.obj (.cons (.text [98]) (.bool true) (.cons (.text [122, 122]) .null .nil))) .nil)) .nil)

example : Inject exTy exDoc exDoc' [122, 122] := by
  refine .structField _ _ _ _ (.here _ [97] 0 _ _ _ _ _ rfl ?_)
  refine .seq _ _ _ _ (.here _ _ _ _ _ ?_)
  exact .here _ _ _ _ .null (by decide) (.there _ _ _ _ _ _ (.here _ _ _))

end ConjureVerif.C05
