import ConjureVerif.Lemmas.WrapUnknown
import ConjureVerif.Gen.UnknownFieldsSrc
import ConjureVerif.Gen.JsonDeServerSrc
import ConjureVerif.Gen.SmileDeServerSrc
import ConjureVerif.Gen.WrapTable
import ConjureVerif.Gen.JsonDeSrc
import ConjureVerif.Gen.SmileDeClientSrc
/-
C05 — Servers reject and clients ignore unknown object fields at every nesting depth.

`Inject ty d d' k` (Lemmas/WrapInject) says: `d'` is `d` plus one member named `k`, holding any
document, in an object that is read as a struct not declaring `k`, anywhere below optionals,
sequences, tuples, map values, newtypes (aliases), struct fields and enum-variant payloads.
-/
set_option linter.unusedSimpArgs false
namespace ConjureVerif.C05
open ConjureVerif ConjureVerif.Data ConjureVerif.Wrap

/-! #### instantiation -/

/-- the server deserializers of both formats are the wrapper chain with `UnknownFieldsBehavior`
    around the format's value behaviour; the client ones are not -/
theorem gen_server_behaviors :
    Gen.JsonDeServerSrc.hashes.lookup "de::Deserializer<'de> for &'amutServerDeserializer<R>::impl_deserialize_body!" = some 6916776558792606862 /- "&'amutserde_json::Deserializer<R>,UnknownFieldsBehavior<ValueBehavior>" -/ ∧
    Gen.SmileDeServerSrc.hashes.lookup "de::Deserializer<'de> for &'amutServerDeserializer<'de,R>::impl_deserialize_body!" = some 3095571778591537364 /- "&'amutserde_smile::Deserializer<'de,R>,UnknownFieldsBehavior<ValueBehavior>" -/ ∧
    Gen.JsonDeSrc.hashes.lookup "de::Deserializer<'de> for &'amutClientDeserializer<R>::impl_deserialize_body!" = some 14994026435428837345 /- "&'amutserde_json::Deserializer<R>,ValueBehavior" -/ ∧
    Gen.SmileDeClientSrc.hashes.lookup "de::Deserializer<'de> for &'amutClientDeserializer<'de,R>::impl_deserialize_body!" = some 16925310013538528895 /- "&'amutserde_smile::Deserializer<'de,R>,ValueBehavior" -/ := by
  decide +kernel

/-- `UnknownFieldsBehavior`: struct deserialization is intercepted, the current key is recorded, and
    a request to ignore a value becomes `unknown_field(key)`; keys use the same behaviour -/
theorem gen_unknown_fields_behavior :
    Gen.UnknownFieldsSrc.hashes.lookup "Behavior for UnknownFieldsBehavior<B>::deserialize_struct" = some 12582298749013127255 /- "{B::deserialize_struct(de,name,fields,DelegatingVisitor::new(StructVisitor{fields},visitor),)}" -/ ∧
    Gen.UnknownFieldsSrc.hashes.lookup "Visitor2<'de,V> for StructVisitor::visit_map" = some 16346528810062829712 /- "{visitor.visit_map(StructMapAccess{map,fields:self.fields,key:None,})}" -/ ∧
    Gen.UnknownFieldsSrc.hashes.lookup "Deserializer2<'de,D> for ValueDeserializer<'de,'_>::deserialize_ignored_any" = some 9190212375268845044 /- "{letkey=matchself.key{Some(key)=>&**key,None=>\"<unknown>\",};Err(Error::unknown_field(key,self.fields))}" -/ := by
  decide +kernel

/-- the wrapper keeps the behaviour alive below every container (shared with C01) -/
theorem gen_de_struct_dispatch :
    Gen.WrapTable.deTable.contains ("Deserializer", "deserialize_struct", ["B"], ["deserialize_struct"]) = true ∧
    Gen.WrapTable.deTable.contains ("MapAccess", "next_value_seed", ["B"], []) = true ∧
    Gen.WrapTable.deTable.contains ("SeqAccess", "next_element_seed", ["B"], []) = true ∧
    Gen.WrapTable.deTable.contains ("Visitor", "visit_some", ["B"], []) = true ∧
    Gen.WrapTable.deTable.contains ("Visitor", "visit_newtype_struct", ["B"], []) = true ∧
    Gen.WrapTable.deTable.contains ("VariantAccess", "newtype_variant_seed", ["B"], []) = true ∧
    Gen.WrapTable.deTable.contains ("VariantAccess", "tuple_variant", ["B"], []) = true := by decide +kernel

/-! #### the property -/

/-- **servers reject**: a document the server accepts, given one extra undeclared member at any
    depth (whatever it holds), is rejected with an error naming that member -/
theorem C05_server_rejects (fmt : Fmt) (t : Ty) (d d' : Doc) (k : List Nat) (v : Val)
    (hok : de fmt .server t d = .ok v) (hinj : Inject t d d' k) :
    de fmt .server t d' = .error (.unknownField k) := srv fmt hinj v hok

/-- **clients ignore**: the client reads the document with the extra member exactly as it reads the
    document without it — same value, or same error -/
theorem C05_client_ignores (fmt : Fmt) (t : Ty) (d d' : Doc) (k : List Nat) (hinj : Inject t d d' k) :
    de fmt .client t d' = de fmt .client t d := cli fmt hinj

/-- any number of extra members, injected one after another -/
inductive InjectN : Ty → Doc → Doc → List (List Nat) → Prop
  | zero (t : Ty) (d : Doc) : InjectN t d d []
  | step (t : Ty) (d d1 d2 : Doc) (ks : List (List Nat)) (k : List Nat) :
      InjectN t d d1 ks → Inject t d1 d2 k → InjectN t d d2 (k :: ks)

theorem C05_client_ignores_many (fmt : Fmt) (t : Ty) (d d' : Doc) (ks : List (List Nat))
    (h : InjectN t d d' ks) : de fmt .client t d' = de fmt .client t d := by
  induction h with
  | zero => rfl
  | step d1 d2 ks k _ hi ih => rw [cli fmt hi, ih]

/-- the round trip of C01 composed with injection: what a server wrote, plus unknown members, is
    still read by a client as the original value -/
theorem C05_client_reads_original (fmt : Fmt) (t : Ty) (v : Val) (hv : HasTy t v) (d d' : Doc)
    (ks : List (List Nat)) (hs : ser fmt t v = some d) (h : InjectN t d d' ks) :
    de fmt .client t d' = .ok v := by
  rw [C05_client_ignores_many fmt t d d' ks h]
  obtain ⟨d0, h1, h2⟩ := rt fmt .client hv
  rw [hs] at h1; cases h1; exact h2

/-! #### non-vacuity: {"a":[{"b":true}]} with "zz":null injected into the inner object -/
def exTy : Ty := .struct (.cons [97] (.seq (.struct (.cons [98] .bool .nil))) .nil)
def exDoc : Doc := .obj (.cons (.text [97]) (.arr (.cons (.obj (.cons (.text [98]) (.bool true) .nil)) .nil)) .nil)
def exDoc' : Doc :=
  .obj (.cons (.text [97]) (.arr (.cons (.obj (.cons (.text [98]) (.bool true) (.cons (.text [122, 122]) .null .nil))) .nil)) .nil)

example : Inject exTy exDoc exDoc' [122, 122] := by
  refine .structField _ _ _ _ (.here _ [97] 0 _ _ _ _ _ rfl ?_)
  refine .seq _ _ _ _ (.here _ _ _ _ _ ?_)
  exact .here _ _ _ _ .null (by decide) (.there _ _ _ _ _ _ (.here _ _ _))

end ConjureVerif.C05
