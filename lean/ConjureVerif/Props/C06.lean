import ConjureVerif.Lemmas.Body
/-
C06 — Servers accept a request body only if it is exactly one complete valid document.

`parse` (the encoding's typed deserializer applied to a complete buffer, with its verdict on the
unread remainder) is universally quantified: the theorems hold whatever the document syntax is.
-/
set_option linter.unusedSimpArgs false
namespace ConjureVerif.C06
open ConjureVerif ConjureVerif.Body

/-- all chunks are data, and their concatenation -/
def AllOk (cs : List Chunk) (body : List Nat) : Prop := ∃ bss, cs = oks bss ∧ body = bss.flatten

/-- **chunking independence of reassembly**: two error-free chunkings of the same bytes (empty chunks
    included) read to the same result, for any limit -/
theorem C06_chunking_independent (limit : Option Nat) (bss bss' : List (List Nat))
    (h : bss.flatten = bss'.flatten) : readBody limit (oks bss) = readBody limit (oks bss') := by
  rw [readBody_oks, readBody_oks, h]

/-- **size limit**: an error-free body is rejected as too large exactly when its total length exceeds
    the limit — wherever the chunk boundaries fall -/
theorem C06_limit (l : Nat) (bss : List (List Nat)) :
    (readBody (some l) (oks bss) = .tooLarge ↔ bss.flatten.length > l) ∧
    (readBody (some l) (oks bss) = .ok bss.flatten ↔ bss.flatten.length ≤ l) := by
  rw [readBody_oks, within_some]
  by_cases h : bss.flatten.length ≤ l
  · rw [decide_eq_true h, if_pos rfl]
    refine ⟨⟨fun x => ?_, fun x => ?_⟩, ⟨fun _ => h, fun _ => rfl⟩⟩
    · cases x
    · omega
  · rw [decide_eq_false h, if_neg (by simp)]
    refine ⟨⟨fun _ => by omega, fun _ => rfl⟩, ⟨fun x => ?_, fun x => absurd x h⟩⟩
    cases x

/-- **accept-iff**: the handler runs with `v` exactly when a registered encoding was selected by
    Content-Type, no stream item is an error, the whole body fits the limit, and the body is one
    valid document of the parameter type followed only by insignificant bytes -/
theorem C06_accept_iff (encOk : Bool) (limit : Nat) (cs : List Chunk) (parse : List Nat → Parse) (v : Nat) :
    stdDeserialize encOk limit cs parse = .handler (some v) ↔
      (encOk = true ∧ ∃ body, AllOk cs body ∧ body.length ≤ limit ∧ parse body = .value v true) := by
  cases encOk with
  | false => simp [stdDeserialize]
  | true =>
    simp only [true_and]
    rcases chunks_split cs with ⟨bss, rfl⟩ | ⟨pre, e, post, rfl⟩
    · rw [std_oks]
      constructor
      · intro h
        by_cases hl : bss.flatten.length ≤ limit
        · rw [if_pos hl] at h
          obtain ⟨w, hw, hp⟩ := (ofParse_handler _ _).mp h
          cases hw
          exact ⟨bss.flatten, ⟨bss, rfl, rfl⟩, hl, hp⟩
        · rw [if_neg hl] at h; cases h
      · rintro ⟨body, ⟨bss', h1, h2⟩, hlen, hp⟩
        have := oks_inj h1; subst this; subst h2
        rw [if_pos hlen, hp]; rfl
    · rw [std_err]
      constructor
      · intro h; split at h <;> cases h
      · rintro ⟨body, ⟨bss', h1, _⟩, _, _⟩
        exact absurd (by rw [← h1]; simp) (err_not_mem_oks e bss')

/-- **otherwise**: in every other case the handler is not invoked and the result is INVALID_ARGUMENT
    or an error that the stream itself produced — never anything else -/
theorem C06_reject (encOk : Bool) (limit : Nat) (cs : List Chunk) (parse : List Nat → Parse) :
    (∃ v, stdDeserialize encOk limit cs parse = .handler (some v)) ∨
    stdDeserialize encOk limit cs parse = .invalidArgument ∨
    (∃ e, stdDeserialize encOk limit cs parse = .streamError e ∧ Chunk.err e ∈ cs) := by
  cases encOk with
  | false => simp [stdDeserialize]
  | true =>
    rcases chunks_split cs with ⟨bss, rfl⟩ | ⟨pre, e, post, rfl⟩
    · rw [std_oks]
      split
      · cases hp : parse bss.flatten with
        | invalid => right; left; rfl
        | value w b =>
          cases b
          · right; left; rfl
          · left; exact ⟨w, rfl⟩
      · right; left; rfl
    · rw [std_err]
      split
      · right; right; exact ⟨e, rfl, by simp⟩
      · right; left; rfl

/-- trailing data, truncation, malformed documents and unknown fields are all `parse ≠ value _ true`:
    the handler is never invoked for them -/
theorem C06_trailing_data_rejected (limit : Nat) (cs : List Chunk) (parse : List Nat → Parse)
    (body : List Nat) (h : AllOk cs body) (hp : ∀ v, parse body ≠ .value v true) :
    ∀ v, stdDeserialize true limit cs parse ≠ .handler v := by
  intro v hv
  obtain ⟨bss, rfl, rfl⟩ := h
  rw [std_oks] at hv
  split at hv
  · obtain ⟨w, _, hw⟩ := (ofParse_handler _ _).mp hv
    exact hp w hw
  · cases hv

/-- **optional body**: without a Content-Type the body is absent and the stream is not read;
    with one, it is treated exactly like a required body -/
theorem C06_optional (hasCT encOk : Bool) (limit : Nat) (cs : List Chunk) (parse : List Nat → Parse) :
    (hasCT = false → optionalDeserialize hasCT encOk limit cs parse = .handler none) ∧
    (hasCT = true → optionalDeserialize hasCT encOk limit cs parse = stdDeserialize encOk limit cs parse) := by
  constructor <;> intro h <;> simp [optionalDeserialize, h]

/-! #### non-vacuity: "[1]" split as "[", "", "1]" with a 3-byte limit; then with an error after "[" -/
example : stdDeserialize true 3 [.ok [91], .ok [], .ok [49, 93]] (fun b => if b = [91, 49, 93] then .value 7 true else .invalid)
    = .handler (some 7) := by decide
example : stdDeserialize true 2 [.ok [91], .ok [], .ok [49, 93]] (fun _ => .value 7 true) = .invalidArgument := by
  decide
example : stdDeserialize true 3 [.ok [91], .err 5, .ok [49, 93]] (fun _ => .value 7 true) = .streamError 5 := by
  decide

end ConjureVerif.C06
