import ConjureVerif.Lemmas.Endpoint
import ConjureVerif.Props.C19
import ConjureVerif.Gen.ErrorSites
import ConjureVerif.Gen.BearerTokenSrc
/-
C09 — Data of arguments not declared safe never reaches any safe-to-log channel.

The endpoint model labels data by origin (`Label.const` for text fixed in the program, `Label.arg i` for anything
computed from the request data of argument `i`).  The safe-to-log channels of an outcome are: the response's
`SafeParams`, the error's safe parameters (`param`: a declared name; `actual`: a count of values, labelled `const`
by stated choice), and the cause message when the error flags it safe.
-/
set_option linter.unusedSimpArgs false
namespace ConjureVerif.C09
open ConjureVerif ConjureVerif.Endpoint

/-! #### instantiation -/

/-- in the request path of conjure-http every `*_safe` constructor is given a string literal as its cause, except
at these sites, whose cause is an error value of a type with a constant `Display` (`http::header::ToStrError`,
`conjure_object::bearer_token::ParseError`, `mediatype::MediaTypeError`) — the model labels them `const`, and the
harness looks for request data in every cause flagged safe -/
theorem gen_safe_sites_literal : Gen.ErrorSites.extractOk = true ∧
    ((Gen.ErrorSites.sites.filter (fun s => s.2.2.1.endsWith "_safe" && !s.2.2.2.2)).map
      (fun s => (s.1, s.2.1, s.2.2.1, s.2.2.2.1))) =
    [("private/server.rs", "parse_auth_inner", "service_safe", "e"), ("private/server.rs", "parse_auth_inner", "service_safe", "e"), ("server/mod.rs", "Vec::write_body", "internal_safe", "<fn-value>"), ("server/runtime.rs", "ConjureRuntime::request_body_encoding", "service_safe", "e"), ("server/runtime.rs", "ConjureRuntime::request_body_encoding", "service_safe", "e")] := by
  decide +kernel

/-- the decode sites that receive request data use the unsafe constructor -/
theorem gen_value_sites_unsafe :
    ((Gen.ErrorSites.sites.filter (fun s => (s.2.1.endsWith "Decoder::decode" || s.2.1 == "StdRequestDeserializer::deserialize"))).all
      (fun s => s.2.2.1 == "service")) = true ∧
    ((Gen.ErrorSites.sites.filter (fun s => s.2.1 == "only_item" || s.2.1 == "optional_item" || s.2.1 == "parse_auth_inner" || s.2.1 == "check_limit")).all
      (fun s => s.2.2.1 == "service_safe")) = true := by
  decide +kernel

/-- `Debug for BearerToken` prints a constant -/
theorem gen_token_debug_redacted :
    Gen.BearerTokenSrc.bodies.lookup "fmt::Debug for BearerToken::fmt" =
      some "{fmt.debug_tuple(\"BearerToken\").field(&\"REDACTED\").finish()}" := by
  decide +kernel

/-! #### non-interference -/

/-- the labels of everything an outcome exposes on a safe-to-log channel -/
def safeChannel (o : Outcome) : List Label :=
  o.logged.map (fun kj => Label.arg kj.2) ++
  match o.error with
  | none => []
  | some e => (if e.causeSafe then [e.cause] else []) ++ [Label.const, Label.const]   -- `param`, `actual`

/-- **Non-interference.**  For every endpoint and every request, whether decoding succeeds or fails, each piece of
data on a safe-to-log channel is constant text or comes from an argument declared safe.  Auth tokens and context
are never declared safe (`ArgType::safe`), so nothing of them ever appears. -/
theorem C09_noninterference (args : List ArgSpec) (r : Request) (l : Label)
    (h : l ∈ safeChannel (handleReq args r)) :
    l = .const ∨ ∃ i a, l = .arg i ∧ args[i]? = some a ∧ a.safe = true := by
  unfold safeChannel at h
  rcases List.mem_append.mp h with h | h
  · obtain ⟨⟨k, j⟩, hkj, rfl⟩ := List.mem_map.mp h
    rcases run_logged r args 0 [] k j hkj with h0 | ⟨-, a, ha, hs, -⟩
    · simp at h0
    · exact Or.inr ⟨j, a, rfl, by simpa using ha, hs⟩
  · cases he : (handleReq args r).error with
    | none => simp [he] at h
    | some e =>
      simp only [he] at h
      rcases List.mem_append.mp h with h | h
      · by_cases hc : e.causeSafe = true
        · simp only [hc, if_true, List.mem_singleton] at h
          obtain ⟨k, a, -, hd, -⟩ := run_error_from r args 0 [] e he
          exact Or.inl (h ▸ (decodeArg_err r _ a e hd).2.2.1 hc)
        · simp [hc] at h
      · simp at h; exact Or.inl h

/-- a cause flagged safe is constant text; a cause computed from a value is flagged unsafe -/
theorem C09_safe_cause_is_constant (args : List ArgSpec) (r : Request) (e : Err)
    (h : (handleReq args r).error = some e) : (e.causeSafe = true → e.cause = .const) ∧
    (∀ i, e.cause = .arg i → e.causeSafe = false) := by
  obtain ⟨k, a, -, hd, -⟩ := run_error_from r args 0 [] e h
  have := (decodeArg_err r _ a e hd).2.2.1
  refine ⟨this, ?_⟩
  intro i hi
  cases hc : e.causeSafe with
  | false => rfl
  | true => have := this hc; rw [hi] at this; cases this

/-- only arguments declared safe are recorded, each under its declared (`log_as`) name -/
theorem C09_only_safe_recorded (args : List ArgSpec) (r : Request) (k : Bytes) (j : Nat)
    (h : (k, j) ∈ (handleReq args r).logged) : ∃ a, args[j]? = some a ∧ a.safe = true ∧ k = a.logName := by
  rcases run_logged r args 0 [] k j h with h0 | ⟨-, a, ha, hs, hk⟩
  · simp at h0
  · refine ⟨a, by simpa using ha, hs, ?_⟩
    rw [hk]; unfold safeKey
    have := C19.gen_param_names.2.2.2.2.2
    simp [this]

/-- every argument declared safe that decoded before the outcome is recorded under its declared name —
also when a later argument fails -/
theorem C09_safe_recorded (r : Request) (pre : List ArgSpec) (a : ArgSpec) (post : List ArgSpec)
    (hpre : ∀ k b, pre[k]? = some b → decodeArg r k b = .ok ())
    (ha : decodeArg r pre.length a = .ok ()) (hs : a.safe = true) :
    (a.logName, pre.length) ∈ (handleReq (pre ++ a :: post) r).logged := by
  have := run_records r pre a post 0 [] (by simpa using hpre) (by simpa using ha) hs
  have hk : safeKey a = a.logName := by
    unfold safeKey
    have := C19.gen_param_names.2.2.2.2.2
    simp [this]
  rw [hk] at this
  simpa [handleReq] using this

/-! #### non-vacuity: an unsafe header value fails after a safe query value decoded -/
def exArgs : List ArgSpec := [
  { kind := .query, dec := .one, ty := .str, name := [113], logName := [113, 78], ident := [113, 95, 110], safe := true },
  { kind := .header, dec := .one, ty := .int, name := [104], logName := [104, 78], ident := [104, 95, 110], safe := false }]
def exReq : Request :=
  { pathParams := [], query := some [113, 61, 97], headers := [([104], [122])], ct := .absent, payload := .ok, dbl := [] }

example : (handleReq exArgs exReq).logged = [([113, 78], 0)] := by decide +kernel
example : (handleReq exArgs exReq).error.map (fun e => (e.causeSafe, e.cause, e.param)) =
    some (false, .arg 1, some [104, 78]) := by decide +kernel
example : safeChannel (handleReq exArgs exReq) = [.arg 0, .const, .const] := by decide +kernel

end ConjureVerif.C09
