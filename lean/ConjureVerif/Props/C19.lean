import ConjureVerif.Lemmas.Endpoint
import ConjureVerif.Lemmas.Emit
import ConjureVerif.Gen.MacroEndpointsSrc
import ConjureVerif.Gen.PrivateServerSrc
import ConjureVerif.Gen.ServerModSrc
import ConjureVerif.Gen.ServerConjureSrc
/-
C19 — Undecodable request parameters yield a client error naming the declared argument.

Model/Endpoint.lean is the handler a `#[conjure_endpoints]` trait expands to, up to the call of the user's method:
arguments decoded in declaration order by the helpers of conjure-http/src/private/server.rs with the decoders the
generator selects (FromPlain / FromPlainOption / FromPlainSeq, FromDecoder being transparent), first failure wins.
`Gen.ParamNames` (extracted on every run from conjure-macros/src/endpoints.rs) says which name each
`generate_<kind>_arg` hands to the helper for the `param` entry.
-/
set_option linter.unusedSimpArgs false
namespace ConjureVerif.C19
open ConjureVerif ConjureVerif.Endpoint

/-! #### instantiation: the extracted name sources and the source text the model was written against -/

/-- every parameter kind reports the `log_as` (declared) name, and safe parameters are recorded under it -/
theorem gen_param_names : Gen.ParamNames.extractOk = true ∧
    nameSource "path" = "logAs" ∧ nameSource "query" = "logAs" ∧ nameSource "header" = "logAs" ∧
    nameSource "body" = "logAs" ∧ nameSource "safeKey" = "logAs" := by decide +kernel

/-- the pinned source text, as one Boolean so that a mismatch fails fast -/
def gen_macro_source_ok : Bool :=
  (Gen.MacroEndpointsSrc.hashes.lookup "fn generate_endpoint_handler" == some 3690477037999861193 /- "{letstruct_name=endpoint_name(endpoint);letrequest=quote!(__request);letresponse_extensions=quote!(__response_extensions);letparts=quote!(__parts);letbody=quote!(__body);letquery_params=quote!(__query_params);letsafe_params=quote!(__safe_params);letresponse=quote!(__response);letmethod=&endpoint.ident;letImplParams{impl_generics,where_clause,request_body,response_writer,trait_impl,}=impl_params(service);letendpoint_trait=matchservice.asyncness{Asyncness::Sync=>quote!(Endpoint),Asyncness::Async=>quote!(AsyncEndpoint),};letasync_=matchservice.asyncness{Asyncness::Sync=>quote!(),Asyncness::Async=>quote!(async),};letresponse_body=matchservice.asyncness{Asyncness::Sync=>quote!(ResponseBody),Asyncness::Async=>quote!(AsyncResponseBody),};letgenerate_query_params=ifhas_query_params(endpoint){quote!{let#query_params=conjure_http::private::parse_query_params(&#parts);}}else{quote!()};letgenerate_safe_params=ifhas_safe_params(endpoint){quote!{#response_extensions.insert(conjure_http::SafeParams::new());let#safe_params=#response_extensions.get_mut::<conjure_http::SafeParams>().unwrap();}}else{quote!()};letgenerate_args=endpoint.args.iter().map(|arg|{generate_arg(&parts,&body,&query_params,&response_extensions,&safe_params,service,arg,)});letargs=endpoint.args.iter().map(|arg|arg.ident());letawait_=matchservice.asyncness{Asyncness::Sync=>quote!(),Asyncness::Async=>quote!(.await),};letgenerate_response=generate_response(&parts,&response,service,endpoint);quote!{impl#impl_genericsconjure_http::server::#endpoint_trait<#request_body,#response_writer>for#struct_name<#trait_impl>#where_clause{#async_fnhandle(&self,#request:conjure_http::private::Request<#request_body>,#response_extensions:&mutconjure_http::private::Extensions,)->conjure_http::private::Result<conjure_http::private::Response<conjure_http::server::#response_body<#response_writer>>,conjure_http::private::Error,>{let(#parts,#body)=#request.into_parts();#generate_query_params#generate_safe_params#(#generate_args)*let#response=self.handler.#method(#(#args),*)#await_?;#generate_response}}}}" -/) &&
  (Gen.MacroEndpointsSrc.hashes.lookup "fn generate_arg" == some 10363124566793418177 /- "{letgenerate_arg=matcharg{ArgType::Path(arg)=>generate_path_arg(parts,arg),ArgType::Query(arg)=>generate_query_arg(query_params,arg),ArgType::Header(arg)=>generate_header_arg(parts,arg),ArgType::Auth(arg)=>generate_auth_arg(parts,arg),ArgType::Body(arg)=>generate_body_arg(parts,body,service,arg),ArgType::Context(arg)=>generate_context_arg(parts,response_extensions,arg),};letsafe_log=ifarg.safe(){letname=&arg.ident();letkey=arg.log_as();quote!{#safe_params.insert(#key,&#name);}}else{quote!()};quote!{#generate_arg#safe_log}}" -/) &&
  (Gen.MacroEndpointsSrc.hashes.lookup "fn generate_path_arg" == some 10877479656661404801 /- "{letname=&arg.ident;letparam=match&arg.params.name{Some(name)=>name.value(),None=>arg.ident.to_string(),};letlog_as=arg.log_as();letdecoder=arg.params.decoder.as_ref().map_or_else(||quote!(conjure_http::server::FromStrDecoder),|d|quote!(#d),);quote!{let#name=conjure_http::private::path_param::<_,#decoder>(&self.runtime,&#parts,#param,#log_as,)?;}}" -/) &&
  (Gen.MacroEndpointsSrc.hashes.lookup "fn generate_query_arg" == some 13113819969034372553 /- "{letname=&arg.ident;letkey=&arg.params.name;letlog_as=arg.log_as();letdecoder=arg.params.decoder.as_ref().map_or_else(||quote!(conjure_http::server::FromStrDecoder),|d|quote!(#d),);quote!{let#name=conjure_http::private::query_param::<_,#decoder>(&self.runtime,&#query_params,#key,#log_as,)?;}}" -/) &&
  (Gen.MacroEndpointsSrc.hashes.lookup "fn generate_header_arg" == some 17531250836635173135 /- "{letname=&arg.ident;letheader=&arg.params.name;letlog_as=arg.log_as();letdecoder=arg.params.decoder.as_ref().map_or_else(||quote!(conjure_http::server::FromStrDecoder),|d|quote!(#d),);quote!{let#name=conjure_http::private::header_param::<_,#decoder>(&self.runtime,&#parts,#header,#log_as,)?;}}" -/) &&
  (Gen.MacroEndpointsSrc.hashes.lookup "fn generate_auth_arg" == some 4052299432960015593 /- "{letname=&arg.ident;letcall=match&arg.params.cookie_name{Some(cookie_name)=>{letprefix=format!(\"{}=\",cookie_name.value());quote!(parse_cookie_auth(&#parts,#prefix))}None=>quote!(parse_header_auth(&#parts)),};quote!{let#name=conjure_http::private::#call?;}}" -/) &&
  (Gen.MacroEndpointsSrc.hashes.lookup "fn generate_body_arg" == some 13857794613402459123 /- "{letname=&arg.ident;letfunction=matchservice.asyncness{Asyncness::Sync=>quote!(body_arg),Asyncness::Async=>quote!(async_body_arg),};letdeserializer=arg.params.deserializer.as_ref().map_or_else(||quote!(conjure_http::server::StdRequestDeserializer),|d|quote!(#d),);letlog_as=arg.log_as();letawait_=matchservice.asyncness{Asyncness::Sync=>quote!(),Asyncness::Async=>quote!(.await),};quote!{let#name=conjure_http::private::#function::<#deserializer,_,_>(&self.runtime,&#parts.headers,#body,#log_as,)#await_?;}}" -/)

set_option maxRecDepth 100000 in
theorem gen_macro_source : gen_macro_source_ok = true := by decide +kernel

/-- the pinned source text, as one Boolean so that a mismatch fails fast -/
def gen_private_server_source_ok : Bool :=
  (Gen.PrivateServerSrc.hashes.lookup "fn path_param" == some 9065395318739115371 /- "{letpath_params=parts.extensions.get::<PathParams>().expect(\"PathParamsmissingfromrequest\");letvalue=&path_params[param];letparams=value.split('/').map(percent_encoding::percent_decode_str).map(|v|v.decode_utf8_lossy());D::decode(runtime,params).map_err(|e|e.with_safe_param(\"param\",log_as))}" -/) &&
  (Gen.PrivateServerSrc.hashes.lookup "fn parse_query_params" == some 3339896056040469762 /- "{letquery=matchparts.uri.query(){Some(query)=>query,None=>returnHashMap::new(),};letmutmap=HashMap::new();for(key,value)inform_urlencoded::parse(query.as_bytes()){map.entry(key).or_insert_with(Vec::new).push(value);}map}" -/) &&
  (Gen.PrivateServerSrc.hashes.lookup "fn query_param" == some 2565579306598539793 /- "{letvalues=query_params.get(key).into_iter().flatten();D::decode(runtime,values).map_err(|e|e.with_safe_param(\"param\",log_as))}" -/) &&
  (Gen.PrivateServerSrc.hashes.lookup "fn header_param" == some 12302334391878900162 /- "{D::decode(runtime,parts.headers.get_all(header)).map_err(|e|e.with_safe_param(\"param\",log_as))}" -/) &&
  (Gen.PrivateServerSrc.hashes.lookup "fn parse_cookie_auth" == some 15803065438027436293 /- "{parse_auth_inner(parts,prefix,COOKIE)}" -/) &&
  (Gen.PrivateServerSrc.hashes.lookup "fn parse_header_auth" == some 17684180691494282351 /- "{parse_auth_inner(parts,\"Bearer\",AUTHORIZATION)}" -/) &&
  (Gen.PrivateServerSrc.hashes.lookup "fn parse_auth_inner" == some 11688810110858210225 /- "{letheader=matchparts.headers.get(header){Some(header)=>header,None=>{returnErr(Error::service_safe(\"requiredauthheadermissing\",PermissionDenied::new(),));}};letheader=header.to_str().map_err(|e|Error::service_safe(e,PermissionDenied::new()))?;letvalue=header.strip_prefix(prefix).ok_or_else(||{Error::service_safe(\"invalidauthheaderformat\",PermissionDenied::new())})?;value.parse().map_err(|e|Error::service_safe(e,PermissionDenied::new()))}" -/) &&
  (Gen.PrivateServerSrc.hashes.lookup "fn body_arg" == some 9343581809471700023 /- "{D::deserialize(runtime,headers,body).map_err(|e|e.with_safe_param(\"param\",log_as))}" -/) &&
  (Gen.PrivateServerSrc.hashes.lookup "fn async_body_arg" == some 7407158389309622563 /- "{D::deserialize(runtime,headers,body).await.map_err(|e|e.with_safe_param(\"param\",log_as))}" -/)

theorem gen_private_server_source : gen_private_server_source_ok = true := by decide +kernel

/-- the pinned source text, as one Boolean so that a mismatch fails fast -/
def gen_decoder_source_ok : Bool :=
  (Gen.ServerModSrc.hashes.lookup "fn only_item" == some 5850790483636977620 /- "{letmutit=it.into_iter();letSome(item)=it.next()else{returnErr(Error::service_safe(\"expectedexactly1parameter\",InvalidArgument::new()).with_safe_param(\"actual\",0),);};letremaining=it.count();ifremaining>0{returnErr(Error::service_safe(\"expectedexactly1parameter\",InvalidArgument::new()).with_safe_param(\"actual\",remaining+1),);}Ok(item)}" -/) &&
  (Gen.ServerModSrc.hashes.lookup "fn optional_item" == some 9423778101433977114 /- "{letmutit=it.into_iter();letSome(item)=it.next()else{returnOk(None);};letremaining=it.count();ifremaining>0{returnErr(Error::service_safe(\"expectedatmost1parameter\",InvalidArgument::new()).with_safe_param(\"actual\",remaining+1),);}Ok(Some(item))}" -/) &&
  (Gen.ServerModSrc.hashes.lookup "DecodeParam<T> for FromDecoder<D,U>::decode" == some 1746800780449850455 /- "{D::decode(runtime,params).map(T::from)}" -/) &&
  (Gen.ServerModSrc.hashes.lookup "DecodeHeader<T> for FromDecoder<D,U>::decode" == some 1086523408316557427 /- "{D::decode(runtime,headers).map(T::from)}" -/) &&
  (Gen.ServerConjureSrc.hashes.lookup "DecodeHeader<T> for FromPlainDecoder::decode" == some 18347655562715653585 /- "{T::from_plain(super::only_item(headers)?.to_str().map_err(|e|Error::service(e,InvalidArgument::new()))?,).map_err(|e|Error::service(e,InvalidArgument::new()))}" -/) &&
  (Gen.ServerConjureSrc.hashes.lookup "DecodeParam<T> for FromPlainDecoder::decode" == some 7294129696322493103 /- "{T::from_plain(super::only_item(params)?.as_ref()).map_err(|e|Error::service(e,InvalidArgument::new()))}" -/) &&
  (Gen.ServerConjureSrc.hashes.lookup "DecodeHeader<Option<T>> for FromPlainOptionDecoder::decode" == some 8631590820879403900 /- "{letSome(header)=super::optional_item(headers)?else{returnOk(None);};letvalue=T::from_plain(header.to_str().map_err(|e|Error::service(e,InvalidArgument::new()))?,).map_err(|e|Error::service(e,InvalidArgument::new()))?;Ok(Some(value))}" -/) &&
  (Gen.ServerConjureSrc.hashes.lookup "DecodeParam<Option<T>> for FromPlainOptionDecoder::decode" == some 12535052271433438872 /- "{letSome(param)=super::optional_item(params)?else{returnOk(None);};letvalue=T::from_plain(param.as_ref()).map_err(|e|Error::service(e,InvalidArgument::new()))?;Ok(Some(value))}" -/) &&
  (Gen.ServerConjureSrc.hashes.lookup "DecodeParam<T> for FromPlainSeqDecoder<U>::decode" == some 16500004896592523549 /- "{params.into_iter().map(|s|{U::from_plain(s.as_ref()).map_err(|e|Error::service(e,InvalidArgument::new()))}).collect()}" -/) &&
  (Gen.ServerConjureSrc.hashes.lookup "DeserializeRequest<Option<T>,R> for OptionalRequestDeserializer::deserialize" == some 9217647599735272692 /- "{if!headers.contains_key(CONTENT_TYPE){returnOk(None);}<StdRequestDeserializerasDeserializeRequest<_,_>>::deserialize(runtime,headers,body)}" -/) &&
  (Gen.ServerConjureSrc.hashes.lookup "AsyncDeserializeRequest<Option<T>,R> for OptionalRequestDeserializer::deserialize" == some 12095283989625539718 /- "{if!headers.contains_key(CONTENT_TYPE){returnOk(None);}<StdRequestDeserializerasAsyncDeserializeRequest<_,_>>::deserialize(runtime,headers,body,).await}" -/) &&
  (Gen.ServerConjureSrc.hashes.lookup "BinaryRequestDeserializer::deserialize_inner" == some 16451867081583581789 /- "{ifheaders.get(CONTENT_TYPE)!=Some(&APPLICATION_OCTET_STREAM){returnErr(Error::service_safe(\"unexpectedContent-Type\",InvalidArgument::new(),));}Ok(body)}" -/)

theorem gen_decoder_source : gen_decoder_source_ok = true := by decide +kernel

/-! #### which requests fail to decode: absent though required, repeated though single-valued, unparsable, not text -/

theorem C19_single_ok_iff (ext : Bytes → Bool) (i : Nat) (ty : PTy) (vals : List Bytes) :
    decodeParam ext i .one ty vals = .ok () ↔ ∃ v, vals = [v] ∧ parses ext ty v = true :=
  decodeParam_one_ok ext i ty vals

theorem C19_optional_ok_iff (ext : Bytes → Bool) (i : Nat) (ty : PTy) (vals : List Bytes) :
    decodeParam ext i .opt ty vals = .ok () ↔ vals = [] ∨ ∃ v, vals = [v] ∧ parses ext ty v = true :=
  decodeParam_opt_ok ext i ty vals

theorem C19_seq_ok_iff (ext : Bytes → Bool) (i : Nat) (ty : PTy) (vals : List Bytes) :
    decodeParam ext i .seq ty vals = .ok () ↔ ∀ v ∈ vals, parses ext ty v = true :=
  decodeParam_seq_ok ext i ty vals

theorem C19_header_ok_iff (ext : Bytes → Bool) (i : Nat) (ty : PTy) (vals : List Bytes) :
    (decodeHeader ext i .one ty vals = .ok () ↔ ∃ v, vals = [v] ∧ toStrOk v = true ∧ parses ext ty v = true) ∧
    (decodeHeader ext i .opt ty vals = .ok () ↔
      vals = [] ∨ ∃ v, vals = [v] ∧ toStrOk v = true ∧ parses ext ty v = true) :=
  ⟨decodeHeader_one_ok ext i ty vals, decodeHeader_opt_ok ext i ty vals⟩

theorem C19_auth_ok_iff (pfx : Bytes) (vals : List Bytes) :
    decodeAuth pfx vals = .ok () ↔
      ∃ v rest t, vals = v :: rest ∧ toStrOk v = true ∧ stripPrefix pfx v = some t ∧ Token.isValid t = true :=
  decodeAuth_ok pfx vals

/-! #### the outcome -/

/-- If argument `a` is the first (in declaration order) that fails to decode, the outcome is that argument's error:
the handler is not invoked, the code is PERMISSION_DENIED for auth and INVALID_ARGUMENT otherwise, and for
path, query and header (and body) arguments the safe `param` entry is the declared (`log_as`) name. -/
theorem C19_first_failure (r : Request) (pre : List ArgSpec) (a : ArgSpec) (post : List ArgSpec) (e : Err)
    (hpre : ∀ k b, pre[k]? = some b → decodeArg r k b = .ok ())
    (ha : decodeArg r pre.length a = .error e) :
    (handleReq (pre ++ a :: post) r).error = some e ∧
    (e.code = if a.kind = .auth ∨ a.kind = .cookie then .permissionDenied else .invalidArgument) ∧
    (a.kind = .path ∨ a.kind = .query ∨ a.kind = .header ∨ a.kind = .body → e.param = some a.logName) ∧
    (a.kind = .auth ∨ a.kind = .cookie → e.param = none) := by
  have h1 := run_first_failure r pre a post 0 [] e (by simpa using hpre) (by simpa using ha)
  have h2 := decodeArg_err r pre.length a e ha
  obtain ⟨-, hp, hq, hh, hb, -⟩ := gen_param_names
  refine ⟨h1, h2.1, ?_, ?_⟩
  · intro hk
    rw [h2.2.1]
    rcases hk with hk | hk | hk | hk <;> simp [hk, reportedName, hp, hq, hh, hb]
  · intro hk
    rw [h2.2.1]
    rcases hk with hk | hk <;> simp [hk]

/-- conversely an error outcome always stems from the first argument that fails, so the three facts above hold of
every error the handler can return -/
theorem C19_error_is_first_failure (args : List ArgSpec) (r : Request) (e : Err)
    (h : (handleReq args r).error = some e) :
    ∃ k a, args[k]? = some a ∧ decodeArg r k a = .error e ∧
      (∀ k' b, k' < k → args[k']? = some b → decodeArg r k' b = .ok ()) ∧
      (e.code = if a.kind = .auth ∨ a.kind = .cookie then .permissionDenied else .invalidArgument) := by
  obtain ⟨k, a, ha, he, hpre⟩ := run_error_from r args 0 [] e h
  simp only [Nat.zero_add] at he hpre
  exact ⟨k, a, ha, he, hpre, (decodeArg_err r k a e he).1⟩

/-- when every argument decodes no such error is produced and the handler runs — and only then -/
theorem C19_all_decode_iff (args : List ArgSpec) (r : Request) :
    (handleReq args r).error = none ↔ ∀ k a, args[k]? = some a → decodeArg r k a = .ok () := by
  have := run_error_ok_iff r args 0 []
  unfold handleReq
  simpa using this

/-! #### non-vacuity: a header argument whose Rust identifier differs from its declared name -/
def exHeader : ArgSpec :=
  { kind := .header, dec := .one, ty := .int, name := [120], logName := [115, 97, 102, 101, 72], ident := [115, 95, 104], safe := true }
def exReq (v : List (Bytes × Bytes)) : Request :=
  { pathParams := [], query := none, headers := v, ct := .absent, payload := .ok, dbl := [] }

example : ((handleReq [exHeader] (exReq [])).error.map (·.param)) = some (some [115, 97, 102, 101, 72]) := by decide +kernel
example : ((handleReq [exHeader] (exReq [([120], [52, 50])])).error.isNone) = true := by decide +kernel
example : ((handleReq [exHeader] (exReq [([120], [52, 50]), ([120], [52, 50])])).error.map (·.actual)) = some (some 2) := by decide +kernel

end ConjureVerif.C19

/-! ### the generator: the name an argument is reported under, for every definition (Model/Emit.lean) -/
namespace ConjureVerif.C19G
open ConjureVerif ConjureVerif.Emit

/-- the name the expanded handler reports for an argument (`param`, and the key in `SafeParams`): `log_as` when the
attribute has one, the Rust identifier otherwise (conjure-macros, `ArgType::log_as`) -/
def reportedName : SAttr → Option Emit.Bytes
  | .path _ i l | .query _ _ i l | .header _ _ i l | .body _ i l => some (l.getD (strBytes i))
  | _ => none

/-- **declared names**: whatever the argument is called — camelCase, a Rust keyword, anything the identifier rules
rewrite — the generated server trait makes the handler report it under its declared Conjure name -/
theorem C19_generated_param_name (defs : Defs) (f : Nat) (kw : List String) (a : Arg) :
    reportedName (serverArg defs f kw a) = some a.name := by
  unfold serverArg
  have h : (logAs kw a).getD (strBytes (ident kw a)) = a.name := by
    unfold logAs
    by_cases hi : strBytes (ident kw a) = a.name
    · simp [hi]
    · simp [hi]
  cases a.kind <;> simp [reportedName, h]

end ConjureVerif.C19G
