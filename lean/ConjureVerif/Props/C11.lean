import ConjureVerif.Lemmas.Negotiate
/-
C11 — Response encoding honours Accept; request decoding honours Content-Type.

The specification below (`Best`, `Permitted`) is declarative — it does not mention sorting, `find`,
reversal or `max_by`; the theorems relate the model of the code's sort-and-select to it.
-/
set_option linter.unusedSimpArgs false
namespace ConjureVerif.C11
open ConjureVerif ConjureVerif.Negotiate

/-- ranges in effect: no Accept header means `*/*` with quality 1 -/
def rangesOf (rs : List Range) : List Range :=
  if rs.isEmpty then [{ ty := 0, subty := 0, suffix := 0, np := 0, q := 1000, idx := 0 }] else rs

/-- `r` is the range that governs encoding `e`: it matches `e`, and no matching range is more specific
    (ties between equally specific ranges: higher quality, then earlier position) -/
def Best (rs : List Range) (e : Enc) (r : Range) : Prop :=
  r ∈ rs ∧ accepts r e = true ∧ ∀ r' ∈ rs, accepts r' e = true → before r r'

/-- the Accept header permits `e`: some range matches and the governing one has non-zero quality -/
def Permitted (rs : List Range) (e : Enc) : Prop := ∃ r, Best rs e r ∧ r.q ≠ 0

theorem candidate_some (rs : List Range) (e : Enc) (k : Nat × Nat)
    (h : candidate (sortRanges rs) e = some k) : ∃ r, Best rs e r ∧ r.q ≠ 0 ∧ k = (r.q, r.idx) := by
  unfold candidate at h
  cases hf : (sortRanges rs).find? (fun r => accepts r e) with
  | none => simp [hf] at h
  | some r =>
    rw [hf] at h
    simp only at h
    split at h
    · rename_i hq
      obtain ⟨h1, h2, h3⟩ := find_sorted_dominates _ _ (pairwise_sortRanges rs) r hf
      refine ⟨r, ⟨(mem_sortRanges r rs).mp h1, h2, ?_⟩, hq, by simpa using h.symm⟩
      intro r' hr' ha
      exact h3 r' ((mem_sortRanges r' rs).mpr hr') ha
    · cases h

theorem best_key_unique {rs : List Range} {e : Enc} {r r' : Range} (h : Best rs e r) (h' : Best rs e r') :
    r.q = r'.q ∧ r.idx = r'.idx := by
  have h1 := h.2.2 r' h'.1 h'.2.1
  have h2 := h'.2.2 r h.1 h.2.1
  unfold before at h1 h2; omega

theorem candidate_of_permitted (rs : List Range) (e : Enc) (r : Range) (hb : Best rs e r) (hq : r.q ≠ 0) :
    candidate (sortRanges rs) e = some (r.q, r.idx) := by
  unfold candidate
  cases hf : (sortRanges rs).find? (fun r => accepts r e) with
  | none =>
    have := List.find?_eq_none.mp hf r ((mem_sortRanges r rs).mpr hb.1)
    simp [hb.2.1] at this
  | some r' =>
    obtain ⟨h1, h2, h3⟩ := find_sorted_dominates _ _ (pairwise_sortRanges rs) r' hf
    have hb' : Best rs e r' := ⟨(mem_sortRanges r' rs).mp h1, h2,
      fun x hx ha => h3 x ((mem_sortRanges x rs).mpr hx) ha⟩
    have := best_key_unique hb hb'
    simp only
    rw [if_pos (by omega)]
    simp [this.1, this.2]

/-- the candidate list: one entry `(position, (quality, index))` per permitted registered encoding,
    in decreasing order of registration position -/
def cands (rs : List Range) (es : List Enc) : List (Nat × (Nat × Nat)) :=
  ((es.zipIdx).reverse).filterMap (fun (e, i) => (candidate (sortRanges (rangesOf rs)) e).map (fun k => (i, k)))

theorem choose_eq (rs : List Range) (es : List Enc) :
    choose rs es = (maxByLast (fun c => c.2) (cands rs es)).map (·.1) := rfl

theorem mem_cands (rs : List Range) (es : List Enc) (i : Nat) (k : Nat × Nat) :
    (i, k) ∈ cands rs es ↔ ∃ e, es[i]? = some e ∧ candidate (sortRanges (rangesOf rs)) e = some k := by
  unfold cands
  simp only [List.mem_filterMap, List.mem_reverse, Option.map_eq_some_iff]
  constructor
  · rintro ⟨⟨e, j⟩, hm, k', hk, heq⟩
    have := List.mem_zipIdx_iff_getElem?.mp hm
    simp only [Prod.mk.injEq] at heq
    obtain ⟨rfl, rfl⟩ := heq
    exact ⟨e, this, hk⟩
  · rintro ⟨e, he, hk⟩
    exact ⟨(e, i), List.mem_zipIdx_iff_getElem?.mpr he, k, hk, rfl⟩

theorem cands_decreasing (rs : List Range) (es : List Enc) :
    (cands rs es).Pairwise (fun a b => a.1 > b.1) := by
  unfold cands
  apply List.Pairwise.filterMap (R := fun (a b : Enc × Nat) => a.2 > b.2)
  · intro a a' hab b hb b' hb'
    obtain ⟨e, i⟩ := a; obtain ⟨e', i'⟩ := a'
    simp only [Option.map_eq_some_iff] at hb hb'
    obtain ⟨_, _, rfl⟩ := hb; obtain ⟨_, _, rfl⟩ := hb'
    exact hab
  · rw [List.pairwise_reverse]
    have h1 : (List.map Prod.snd es.zipIdx).Pairwise (· < ·) := by
      rw [List.zipIdx_map_snd]; exact List.pairwise_lt_range'
    exact List.pairwise_map.mp h1

/-- **sound**: the chosen encoding is registered and permitted by the Accept header -/
theorem C11_sound (rs : List Range) (es : List Enc) (i : Nat) (h : choose rs es = some i) :
    ∃ e, es[i]? = some e ∧ Permitted (rangesOf rs) e := by
  rw [choose_eq] at h
  simp only [Option.map_eq_some_iff] at h
  obtain ⟨⟨j, k⟩, hm, rfl⟩ := h
  obtain ⟨hmem, _, _⟩ := maxByLast_spec _ _ _ hm
  obtain ⟨e, he, hk⟩ := (mem_cands rs es j k).mp hmem
  obtain ⟨r, hb, hq, _⟩ := candidate_some _ e k hk
  exact ⟨e, he, r, hb, hq⟩

/-- **complete**: an encoding is chosen whenever some registered encoding is permitted -/
theorem C11_complete (rs : List Range) (es : List Enc) (j : Nat) (e : Enc) (he : es[j]? = some e)
    (hp : Permitted (rangesOf rs) e) : choose rs es ≠ none := by
  obtain ⟨r, hb, hq⟩ := hp
  have hm : (j, (r.q, r.idx)) ∈ cands rs es :=
    (mem_cands rs es j _).mpr ⟨e, he, candidate_of_permitted _ e r hb hq⟩
  rw [choose_eq]
  intro hn
  simp only [Option.map_eq_none_iff] at hn
  rw [(maxByLast_none _ _).mp hn] at hm
  cases hm

/-- **optimal**: no permitted registered encoding has strictly higher quality than the chosen one;
    among equal qualities the range listed first wins; among equal range positions the encoding
    registered first wins -/
theorem C11_optimal (rs : List Range) (es : List Enc) (i : Nat) (h : choose rs es = some i)
    (j : Nat) (e : Enc) (he : es[j]? = some e) (r : Range) (hb : Best (rangesOf rs) e r) (hq : r.q ≠ 0) :
    ∃ ei ri, es[i]? = some ei ∧ Best (rangesOf rs) ei ri ∧
      (r.q < ri.q ∨ (r.q = ri.q ∧ (ri.idx < r.idx ∨ (ri.idx = r.idx ∧ i ≤ j)))) := by
  rw [choose_eq] at h
  simp only [Option.map_eq_some_iff] at h
  obtain ⟨⟨i', k⟩, hm, rfl⟩ := h
  obtain ⟨hmem, hdom, pre, post, hsplit, hpost⟩ := maxByLast_spec _ _ _ hm
  obtain ⟨ei, hei, hk⟩ := (mem_cands rs es i' k).mp hmem
  obtain ⟨ri, hbi, _, rfl⟩ := candidate_some _ ei k hk
  have hjm : (j, (r.q, r.idx)) ∈ cands rs es :=
    (mem_cands rs es j _).mpr ⟨e, he, candidate_of_permitted _ e r hb hq⟩
  have hbetter := hdom _ hjm
  refine ⟨ei, ri, hei, hbi, ?_⟩
  simp only [better] at hbetter
  rcases hbetter with hlt | ⟨heq, hge⟩
  · exact .inl hlt
  · right; refine ⟨heq, ?_⟩
    by_cases hidx : ri.idx < r.idx
    · exact .inl hidx
    · right
      have hie : ri.idx = r.idx := by omega
      refine ⟨hie, ?_⟩
      -- equal keys: (j, _) cannot lie after the chosen entry, so it lies at or before it, and
      -- positions decrease along the list
      rw [hsplit] at hjm
      have hdec := cands_decreasing rs es
      rw [hsplit] at hdec
      rcases List.mem_append.mp hjm with hpre | hrest
      · have := (List.pairwise_append.mp hdec).2.2 _ hpre _ List.mem_cons_self
        simp only at this; omega
      · rcases List.mem_cons.mp hrest with e1 | e1
        · simp only [Prod.mk.injEq] at e1; omega
        · exfalso
          apply hpost _ e1
          simp only [better]; omega

/-- **no Accept header**: the first registered encoding is used -/
theorem C11_no_accept (es : List Enc) (e : Enc) (rest : List Enc) (hes : es = e :: rest) :
    choose [] es = some 0 := by
  -- every encoding is governed by `*/*;q=1`, index 0; optimality then forces position 0
  have hbest : ∀ e' : Enc, Best (rangesOf []) e'
      { ty := 0, subty := 0, suffix := 0, np := 0, q := 1000, idx := 0 } := by
    intro e'
    refine ⟨by simp [rangesOf], by simp [accepts], ?_⟩
    intro r' hr' _
    simp [rangesOf] at hr'; subst hr'; exact before_refl _
  have h0 : es[0]? = some e := by rw [hes]; rfl
  cases hc : choose [] es with
  | none => exact absurd hc (C11_complete [] es 0 e h0 ⟨_, hbest e, by decide⟩)
  | some i =>
    obtain ⟨ei, ri, _, hbi, hcmp⟩ := C11_optimal [] es i hc 0 e h0 _ (hbest e) (by decide)
    have hk := best_key_unique hbi (hbest ei)
    simp only at hk hcmp
    have : i = 0 := by omega
    rw [this]

/-- **quality values**: for every RFC 9110 qvalue with up to three decimals the parsed quality is
    the value in thousandths -/
theorem C11_parseQ_spec (d1 d2 d3 : Nat) (h1 : d1 ≤ 9) (h2 : d2 ≤ 9) (h3 : d3 ≤ 9) :
    quality (some [48]) = 0 ∧ quality (some [49]) = 1000 ∧
    quality (some [48, 46]) = 0 ∧
    quality (some [48, 46, 48 + d1]) = 100 * d1 ∧
    quality (some [48, 46, 48 + d1, 48 + d2]) = 100 * d1 + 10 * d2 ∧
    quality (some [48, 46, 48 + d1, 48 + d2, 48 + d3]) = 100 * d1 + 10 * d2 + d3 ∧
    quality (some [49, 46, 48]) = 1000 ∧ quality (some [49, 46, 48, 48]) = 1000 ∧
    quality (some [49, 46, 48, 48, 48]) = 1000 ∧ quality none = 1000 := by
  refine ⟨by decide, by decide, by decide, ?_, ?_, ?_, by decide, by decide, by decide, by decide⟩
  · simp [quality, parseQInner, qDigits]
    rw [if_pos (by omega)]; simp; omega
  · simp [quality, parseQInner, qDigits]
    rw [if_pos (by omega), if_pos (by omega)]; simp; omega
  · simp [quality, parseQInner, qDigits]
    rw [if_pos (by omega), if_pos (by omega), if_pos (by omega)]; simp; omega

/-- **Content-Type**: a request body is decoded with the first registered encoding whose media type
    equals the header's type/subtype (parameters are not part of `Enc`), and with none otherwise -/
theorem C11_content_type (ct : Enc) (es : List Enc) :
    (∀ i, requestEncoding ct es = some i → es[i]? = some ct) ∧
    (requestEncoding ct es = none ↔ ct ∉ es) := by
  constructor
  · intro i h
    unfold requestEncoding at h
    simp only [Option.map_eq_some_iff] at h
    obtain ⟨⟨e, j⟩, hf, rfl⟩ := h
    have hm := List.mem_of_find?_eq_some hf
    have hp := List.find?_some hf
    simp only [beq_iff_eq] at hp
    have := List.mem_zipIdx_iff_getElem?.mp hm
    simp only at this hp
    rw [← hp]; exact this
  · unfold requestEncoding
    simp only [Option.map_eq_none_iff, List.find?_eq_none, beq_iff_eq]
    constructor
    · intro h hmem
      obtain ⟨i, hi, hget⟩ := List.mem_iff_getElem.mp hmem
      have : (ct, i) ∈ es.zipIdx := List.mem_zipIdx_iff_getElem?.mpr (by simp [hget, hi])
      exact h _ this rfl
    · intro h x hx heq
      obtain ⟨e, i⟩ := x
      have := List.mem_zipIdx_iff_getElem?.mp hx
      simp only at this heq
      subst heq
      exact h (List.mem_of_getElem? this)

/-! #### non-vacuity: `application/json;q=0.5, application/*;q=0.9, */*;q=0` against [json, smile] -/
example : choose
    [{ ty := 1, subty := 2, suffix := 0, np := 0, q := 500, idx := 0 },
     { ty := 1, subty := 0, suffix := 0, np := 0, q := 900, idx := 1 },
     { ty := 0, subty := 0, suffix := 0, np := 0, q := 0, idx := 2 }]
    [{ ty := 1, subty := 2, suffix := 0 }, { ty := 1, subty := 3, suffix := 0 }] = some 1 := by decide

end ConjureVerif.C11
