import ConjureVerif.Lemmas.AnyRoundTrip
import ConjureVerif.Lemmas.Base64Canon
import ConjureVerif.Gen.AnyDe
import ConjureVerif.Gen.AnyDeSrc
/-
C13 — The dynamic `any` value is a lossless carrier of serializable data and of JSON.
-/
set_option linter.unusedSimpArgs false
namespace ConjureVerif.C13
open ConjureVerif ConjureVerif.Data ConjureVerif.Wrap ConjureVerif.AnyM

/-! #### instantiation -/

theorem gen_extract_ok : Gen.AnyDe.extractOk = true := by decide

/-- the methods of serde's `Deserializer` trait -/
def allDeserializeMethods : List String :=
  ["deserialize_any", "deserialize_bool", "deserialize_i8", "deserialize_i16", "deserialize_i32", "deserialize_i64",
   "deserialize_i128", "deserialize_u8", "deserialize_u16", "deserialize_u32", "deserialize_u64", "deserialize_u128",
   "deserialize_f32", "deserialize_f64", "deserialize_char", "deserialize_str", "deserialize_string",
   "deserialize_bytes", "deserialize_byte_buf", "deserialize_option", "deserialize_unit", "deserialize_unit_struct",
   "deserialize_newtype_struct", "deserialize_seq", "deserialize_tuple", "deserialize_tuple_struct", "deserialize_map",
   "deserialize_struct", "deserialize_enum", "deserialize_identifier", "deserialize_ignored_any"]

/-- **every request is answered**: each `Deserializer` method of `Any` is either forwarded to
    `deserialize_any` or written by hand — none falls back to serde's "not supported" default
    (as `i128` / `u128` did) — and newtype structs are not among the forwarded ones -/
theorem gen_any_answers_every_method :
    allDeserializeMethods.all (fun m => Gen.AnyDe.forward.contains m || Gen.AnyDe.overridden.contains m) = true ∧
    Gen.AnyDe.forward.contains "deserialize_newtype_struct" = false ∧
    Gen.AnyDe.overridden.contains "deserialize_newtype_struct" = true ∧
    Gen.AnyDe.forward.contains "deserialize_i128" = true ∧ Gen.AnyDe.forward.contains "deserialize_u128" = true := by
  decide +kernel

/-- the hand-written methods the model transcribes -/
theorem gen_any_overrides :
    Gen.AnyDeSrc.hashes.lookup "Deserializer<'de> for Any::deserialize_newtype_struct" = some 3688210282438561104 /- "{visitor.visit_newtype_struct(self)}" -/ ∧
    Gen.AnyDeSrc.hashes.lookup "Deserializer<'de> for Any::deserialize_option" = some 8920209099456636390 /- "{matchself.0{Inner::Null=>visitor.visit_none(),_=>visitor.visit_some(self),}}" -/ ∧
    Gen.AnyDeSrc.hashes.lookup "Deserializer<'de> for Any::deserialize_f64" = some 10636833808872630824 /- "{match&self.0{Inner::String(v)ifv==\"NaN\"=>visitor.visit_f64(f64::NAN),Inner::String(v)ifv==\"Infinity\"=>visitor.visit_f64(f64::INFINITY),Inner::String(v)ifv==\"-Infinity\"=>visitor.visit_f64(f64::NEG_INFINITY),_=>self.deserialize_any(visitor),}}" -/ ∧
    Gen.AnyDeSrc.hashes.lookup "Deserializer<'de> for Any::deserialize_bytes" = some 13822648245046909519 /- "{match&self.0{Inner::String(v)=>matchSTANDARD.decode(v){Ok(buf)=>visitor.visit_byte_buf(buf),Err(_)=>self.deserialize_any(visitor),},_=>self.deserialize_any(visitor),}}" -/ := by
  decide +kernel

/-- `KeyDeserializer`: bool and all numeric targets parse a string key; newtypes stay in key mode -/
theorem gen_key_deserializer :
    Gen.AnyDe.keyParse = ["deserialize_bool=>visit_bool", "deserialize_i8=>visit_i8", "deserialize_i16=>visit_i16", "deserialize_i32=>visit_i32", "deserialize_i64=>visit_i64", "deserialize_i128=>visit_i128", "deserialize_u8=>visit_u8", "deserialize_u16=>visit_u16", "deserialize_u32=>visit_u32", "deserialize_u64=>visit_u64", "deserialize_u128=>visit_u128", "deserialize_f32=>visit_f32", "deserialize_f64=>visit_f64"] ∧
    Gen.AnyDe.keyCustom.contains "deserialize_newtype_struct={visitor.visit_newtype_struct(self)}" = true ∧
    Gen.AnyDe.keyCustom.contains "deserialize_enum={visitor.visit_enum(self)}" = true := by
  decide +kernel

/-! #### the property -/

/-- **lossless carrier**: converting any well-typed value (every integer width, floats incl. NaN,
    binary, options, collections, all struct and variant kinds, maps with non-string keys) to the
    dynamic representation and back to its static type returns the original value -/
theorem C13_roundtrip (t : Ty) (v : Val) (h : HasTy t v) : ∃ a, ofVal t v = some a ∧ toVal t a = .ok v :=
  anyRt h

/-- **no two values share a dynamic value**: at one type, values that convert to the same `any` are equal -/
theorem C13_ofVal_injective (t : Ty) (v w : Val) (hv : HasTy t v) (hw : HasTy t w)
    (e : ofVal t v = ofVal t w) : v = w := by
  obtain ⟨a, ha, hr⟩ := anyRt hv
  obtain ⟨b, hb, hr'⟩ := anyRt hw
  rw [e, hb] at ha
  cases ha
  rw [hr] at hr'
  cases hr'
  rfl

/-- **same document**: serializing the dynamic value to JSON gives the same document as serializing
    the original (the model keeps insertion order; the real `BTreeMap` re-sorts members, which RFC 8259
    equality ignores) -/
theorem C13_json_same (t : Ty) (v : Val) (h : HasTy t v) (a : Any) (ha : ofVal t v = some a) :
    toJson a = ser .json t v := anyJson h a ha

/-- **JSON in, JSON out**: any JSON document parsed into the dynamic representation re-serializes to
    the same document (for a document that names a member twice, to the document every reader sees: the later
    member stays — `ofJsonM`) -/
theorem C13_json_any_json (d : Doc) (hc : JsonClean d) (hd : DistinctKeys d) (a : Any) (ha : ofJson d = some a) :
    toJson a = some d := jsonAnyJson d hc hd a ha

/-- **view (coercions)**: the JSON coercions are those of direct parsing — doubles from the three
    names, binary from Base64, bool / numeric / uuid keys from their string form -/
theorem C13_view_coercions (w : IntW) (n : Int) (hw : w.contains n = true) (bs u : List Nat)
    (hb : Wrap.Bytes bs) (hl : u.length = 16) (hu : Wrap.Bytes u) :
    toVal .f64 (.str txtNaN) = .ok (.f64 .nan) ∧ toVal .f64 (.str txtInf) = .ok (.f64 .posInf) ∧
    toVal .f64 (.str txtNegInf) = .ok (.f64 .negInf) ∧
    toVal .bytes (.str (Base64.encode bs)) = .ok (.bytes bs) ∧
    toValKey .bool (.str txtTrue) = .ok (.bool true) ∧ toValKey .bool (.str txtFalse) = .ok (.bool false) ∧
    toValKey (.int w) (.str (Dec.showInt n)) = .ok (.int n) ∧
    toValKey .uuid (.str (Plain.uuidText u)) = .ok (.uuid u) := by
  refine ⟨by rw [toVal]; simp [anyDbl], by rw [toVal]; simp [anyDbl, txtInf, txtNaN],
    by rw [toVal]; simp [anyDbl, txtNegInf, txtInf, txtNaN], ?_, by simp [toValKey], by simp [toValKey, txtTrue, txtFalse], ?_, ?_⟩
  · rw [toVal]; simp [anyBytes, Base64.decode_encode bs hb]
  · simp [toValKey, Dec.parseRust_showInt, hw]
  · simp [toValKey, C12.C12_roundtrip_uuid u hl hu]

/-- **view (binary, the other direction)**: a string held in an `any` is viewed as binary only when it is the
    canonical padded Base64 of the bytes produced — the view never reads two different strings as the same
    binary, and what it produces are bytes -/
theorem C13_view_binary_is_canonical (s bs : List Nat) (h : anyBytes (.str s) = .ok bs) :
    Base64.encode bs = s ∧ Wrap.Bytes bs := by
  simp only [anyBytes] at h
  cases hd : Base64.decode s with
  | none => rw [hd] at h; cases h
  | some b => rw [hd] at h; cases h; exact Base64.encode_decode s _ hd

example : anyBytes (.str [65, 81, 73, 61]) = .ok [1, 2] ∧ anyBytes (.str [65, 81, 74, 61]) = .error .unsupported := by
  constructor <;> rfl

/-! #### non-vacuity: a 128-bit integer inside a newtype under an optional, and a bool-keyed map -/
example : HasTy (.option (.newtype (.int ⟨true, 128⟩))) (.some (.newtype (.int (-170141183460469231731687303715884105728)))) := by
  refine .some _ _ (.newtype _ _ (.int _ _ (by decide))) ?_
  intro fmt h; cases fmt <;> simp [ser] at h

example : ofVal (.map .bool .f64) (.map (.cons (.bool true) (.f64 .nan) .nil)) =
    some (.map (.cons (.bool true) (.f64 .nan) .nil)) := by simp [ofVal, ofValE]

end ConjureVerif.C13
