import ConjureVerif.Props.C06
/-
C18 — Clients return a value only from a complete, correctly typed response.
-/
set_option linter.unusedSimpArgs false
namespace ConjureVerif.C18
open ConjureVerif ConjureVerif.Body ConjureVerif.C06

/-- a value comes only from a JSON-typed response whose whole body, however chunked, is one
    well-formed document of the return type -/
theorem C18_serializable_iff (ctJson : Bool) (cs : List Chunk) (parse : List Nat → Parse) (v : Nat) :
    decodeSerializable ctJson cs parse = .value v ↔
      (ctJson = true ∧ ∃ body, AllOk cs body ∧ parse body = .value v true) := by
  cases ctJson with
  | false => simp [decodeSerializable]
  | true =>
    simp only [true_and]
    rcases chunks_split cs with ⟨bss, rfl⟩ | ⟨pre, e, post, rfl⟩
    · rw [ser_oks, clientOfParse_value]
      constructor
      · intro h; exact ⟨bss.flatten, ⟨bss, rfl, rfl⟩, h⟩
      · rintro ⟨body, ⟨bss', h1, h2⟩, hp⟩
        have := oks_inj h1; subst this; subst h2; exact hp
    · rw [ser_err]
      constructor
      · intro h; cases h
      · rintro ⟨body, ⟨bss', h1, _⟩, _⟩
        exact absurd (by rw [← h1]; simp) (err_not_mem_oks e bss')

/-- **chunking independence**: two error-free chunkings of the same bytes decode identically -/
theorem C18_chunking_independent (bss bss' : List (List Nat)) (h : bss.flatten = bss'.flatten)
    (parse : List Nat → Parse) :
    decodeSerializable true (oks bss) parse = decodeSerializable true (oks bss') parse := by
  rw [ser_oks, ser_oks, h]

/-- **never partial**: if any stream item is an error, reading fails with that (first) error — no
    value is produced from the bytes before it -/
theorem C18_never_partial (pre : List (List Nat)) (e : Nat) (post : List Chunk)
    (parse : List Nat → Parse) :
    decodeSerializable true (oks pre ++ Chunk.err e :: post) parse = .streamError e :=
  ser_err pre e post parse

theorem decodeSerializable_range (ctJson : Bool) (cs : List Chunk) (parse : List Nat → Parse) :
    (∃ v, decodeSerializable ctJson cs parse = .value v) ∨ decodeSerializable ctJson cs parse = .error ∨
    (∃ e, decodeSerializable ctJson cs parse = .streamError e) := by
  cases ctJson with
  | false => right; left; simp [decodeSerializable]
  | true =>
    rcases chunks_split cs with ⟨bss, rfl⟩ | ⟨pre, e, post, rfl⟩
    · rw [ser_oks]
      cases parse bss.flatten with
      | invalid => right; left; rfl
      | value w b => cases b
                     · right; left; rfl
                     · left; exact ⟨w, rfl⟩
    · right; right; exact ⟨e, ser_err pre e post parse⟩

/-- the five response kinds: exactly when each returns what -/
theorem C18_value_iff (k : Kind) (s204 ctJson ctOctet : Bool) (cs : List Chunk) (parse : List Nat → Parse) :
    (k = .serializable → ∀ v, decodeResponse k s204 ctJson ctOctet cs parse = .value v ↔
        decodeSerializable ctJson cs parse = .value v) ∧
    (k = .defaultSerializable → (s204 = true → decodeResponse k s204 ctJson ctOctet cs parse = .default_) ∧
        (s204 = false → decodeResponse k s204 ctJson ctOctet cs parse = decodeSerializable ctJson cs parse)) ∧
    (k = .empty → (decodeResponse k s204 ctJson ctOctet cs parse = .unit ↔
        s204 = true ∨ ∃ v, decodeSerializable ctJson cs parse = .value v)) ∧
    (k = .binary → (decodeResponse k s204 ctJson ctOctet cs parse = .stream ↔ ctOctet = true)) ∧
    (k = .optionalBinary → (decodeResponse k s204 ctJson ctOctet cs parse = .default_ ↔ s204 = true) ∧
        (decodeResponse k s204 ctJson ctOctet cs parse = .stream ↔ s204 = false ∧ ctOctet = true)) := by
  refine ⟨?_, ?_, ?_, ?_, ?_⟩ <;> intro hk <;> subst hk
  · intro v; simp [decodeResponse]
  · constructor <;> intro h <;> simp [decodeResponse, h]
  · simp only [decodeResponse]
    cases s204 with
    | true => simp
    | false =>
      simp only [Bool.false_eq_true, if_false, false_or]
      rcases decodeSerializable_range ctJson cs parse with ⟨v, hd⟩ | hd | ⟨e, hd⟩ <;> simp [hd]
  · simp only [decodeResponse]; cases ctOctet <;> simp
  · simp only [decodeResponse]; cases s204 <;> cases ctOctet <;> simp

/-- no kind ever yields a value without a JSON Content-Type (or the stream without octet-stream) -/
theorem C18_wrong_content_type (k : Kind) (cs : List Chunk) (parse : List Nat → Parse) :
    (∀ v, decodeResponse k false false false cs parse ≠ .value v) ∧
    decodeResponse k false false false cs parse ≠ .stream ∧
    decodeResponse k false false false cs parse ≠ .unit ∧
    decodeResponse k false false false cs parse ≠ .default_ := by
  cases k <;> simp [decodeResponse, decodeSerializable]

/-! #### non-vacuity -/
example : decodeResponse .defaultSerializable false true false [.ok [91], .ok [93]]
    (fun b => if b = [91, 93] then .value 0 true else .invalid) = .value 0 := by decide
example : decodeResponse .empty false true false [.ok [91], .err 3] (fun _ => .value 0 true) = .streamError 3 := by
  decide

end ConjureVerif.C18
