import ConjureVerif.Lemmas.UriReq
import ConjureVerif.Lemmas.MacroEmit
import ConjureVerif.Gen.MacroClientSrc
import ConjureVerif.Gen.MacroPathSrc
import ConjureVerif.Gen.MacroEndpointsSrc
import ConjureVerif.Gen.Uri
/-
C07 — Parameter values cannot alter the request URI structure and decode back exactly.

Property theorems.  They are proved for an arbitrary percent-encode table `tbl` satisfying `Good tbl`;
`gen_component_good` instantiates them with the table re-extracted from uri_builder.rs, and
`gen_macro_copy_equal` ties the duplicated constant in conjure-macros to it.
-/
set_option linter.unusedSimpArgs false
namespace ConjureVerif.C07
open ConjureVerif ConjureVerif.Uri

/-- what the proofs need of a percent-encode table: it escapes `%` and every delimiter the URI
    structure or the server-side decoders give meaning to -/
structure Good (tbl : List Nat) : Prop where
  pct : 37 ∈ tbl       -- %
  slash : 47 ∈ tbl     -- /
  quest : 63 ∈ tbl     -- ?
  hash : 35 ∈ tbl      -- #
  amp : 38 ∈ tbl       -- &
  eq : 61 ∈ tbl        -- =
  plus : 43 ∈ tbl      -- +

/-- RFC 3986 `unreserved` or one of the sub-delims `! ' ( ) *` -/
def isPlainUriByte (b : Nat) : Bool :=
  (48 ≤ b && b ≤ 57) || (65 ≤ b && b ≤ 90) || (97 ≤ b && b ≤ 122) ||
  b = 45 || b = 46 || b = 95 || b = 126 || b = 33 || b = 39 || b = 40 || b = 41 || b = 42

/-! #### instantiation: the extracted tables -/

theorem gen_extract_ok : Gen.Uri.extractOk = true := by decide

theorem gen_component_good : Good Gen.Uri.component := by
  constructor <;> decide

/-- every ASCII byte the table leaves unescaped is `unreserved` or `! ' ( ) *`; in particular all
    controls, space, `"`, `<`, `>`, `\`, `^`, backtick, `{`, `|`, `}` and every delimiter are escaped -/
theorem gen_component_alphabet :
    ∀ b : Fin 128, inSet Gen.Uri.component b.val = false → isPlainUriByte b.val = true := by
  decide +kernel

/-- the copy of the set in conjure-macros (literal segments and query keys) is the same set -/
theorem gen_macro_copy_equal : Gen.Uri.componentMacros = Gen.Uri.component := by decide

/-- every percent-encode call in both files names `COMPONENT` -/
theorem gen_encode_calls : Gen.Uri.pushEscapedSets = ["COMPONENT"] ∧
    Gen.Uri.macroEncodeSets = ["COMPONENT", "COMPONENT"] := by decide

/-! #### the property, for any good table -/

def Bytes (bs : List Nat) : Prop := ∀ b ∈ bs, b < 256

/-- well-formed request: literal segments contain none of `/ ? #`; everything is bytes -/
structure WF (r : Req) : Prop where
  lits : ∀ s, Seg.lit s ∈ r.segs → 47 ∉ s ∧ 63 ∉ s ∧ 35 ∉ s
  params : ∀ v, Seg.param v ∈ r.segs → Bytes v
  keys : ∀ kv ∈ r.query, Bytes kv.1 ∧ Bytes kv.2

theorem inSet_of_mem {tbl : List Nat} {d : Nat} (h : d ∈ tbl) : inSet tbl d = true := by
  simp [inSet, h]

/-- **values decode back exactly**: percent-decoding and form-decoding invert the client's escaping
    for every byte string -/
theorem C07_decode_encode (tbl : List Nat) (g : Good tbl) (v : List Nat) (hv : Bytes v) :
    decode (encode tbl v) = v ∧ formDecode (encode tbl v) = v := by
  have h1 := decode_encode tbl g.pct v hv
  have h43 : 43 ∉ encode tbl v :=
    not_mem_encode tbl v hv 43 (inSet_of_mem g.plus) (by decide) (by decide)
  exact ⟨h1, by unfold formDecode; rw [plusToSpace_id _ h43, h1]⟩

/-- **no delimiter escapes**: encoded text never contains `/ ? # & = +` -/
theorem C07_no_delimiter (tbl : List Nat) (g : Good tbl) (v : List Nat) (hv : Bytes v) :
    47 ∉ encode tbl v ∧ 63 ∉ encode tbl v ∧ 35 ∉ encode tbl v ∧ 38 ∉ encode tbl v ∧
    61 ∉ encode tbl v ∧ 43 ∉ encode tbl v :=
  ⟨not_mem_encode tbl v hv 47 (inSet_of_mem g.slash) (by decide) (by decide),
   not_mem_encode tbl v hv 63 (inSet_of_mem g.quest) (by decide) (by decide),
   not_mem_encode tbl v hv 35 (inSet_of_mem g.hash) (by decide) (by decide),
   not_mem_encode tbl v hv 38 (inSet_of_mem g.amp) (by decide) (by decide),
   not_mem_encode tbl v hv 61 (inSet_of_mem g.eq) (by decide) (by decide),
   not_mem_encode tbl v hv 43 (inSet_of_mem g.plus) (by decide) (by decide)⟩

/-- the server's `path_param` turns the raw text of one encoded parameter into exactly one value,
    the original -/
theorem C07_path_param_one_value (tbl : List Nat) (g : Good tbl) (v : List Nat) (hv : Bytes v) :
    pathParam (encode tbl v) = [v] := by
  unfold pathParam
  rw [splitOn_not_mem 47 _ (C07_no_delimiter tbl g v hv).1]
  simp [(C07_decode_encode tbl g v hv).1]

theorem raw_no (tbl : List Nat) (g : Good tbl) (r : Req) (wf : WF r) (s : Seg) (hs : s ∈ r.segs) :
    47 ∉ s.raw tbl ∧ 63 ∉ s.raw tbl ∧ 35 ∉ s.raw tbl := by
  cases s with
  | lit l => exact wf.lits l hs
  | param v =>
    have := C07_no_delimiter tbl g v (wf.params v hs)
    exact ⟨this.1, this.2.1, this.2.2.1⟩

theorem not_mem_joinSegs (d : Nat) (hd : d ≠ 47) (segs : List (List Nat)) (h : ∀ s ∈ segs, d ∉ s) :
    d ∉ joinSegs segs := by
  induction segs with
  | nil => simp [joinSegs]
  | cons s ss ih =>
    have := ih (fun x hx => h x (List.mem_cons_of_mem _ hx))
    have hs := h s List.mem_cons_self
    simp only [joinSegs, List.map_cons, List.flatten_cons, List.mem_append, List.mem_cons] at this ⊢
    rintro ((h1 | h1) | h1)
    · exact hd h1
    · exact hs h1
    · exact this h1

theorem path_no (tbl : List Nat) (g : Good tbl) (r : Req) (wf : WF r) :
    63 ∉ pathBytes tbl r.segs ∧ 35 ∉ pathBytes tbl r.segs := by
  constructor
  · apply not_mem_joinSegs 63 (by decide)
    intro s hs; simp only [List.mem_map] at hs
    obtain ⟨sg, hsg, rfl⟩ := hs; exact (raw_no tbl g r wf sg hsg).2.1
  · apply not_mem_joinSegs 35 (by decide)
    intro s hs; simp only [List.mem_map] at hs
    obtain ⟨sg, hsg, rfl⟩ := hs; exact (raw_no tbl g r wf sg hsg).2.2

/-- **exactly the template's segments**: the path of the built URI splits into one raw segment per
    template component, in order — literal segments unchanged, parameter segments the escaped values
    (which decode to the originals by `C07_path_param_one_value`) -/
theorem C07_segments (tbl : List Nat) (g : Good tbl) (r : Req) (wf : WF r) :
    rawSegments (buildBuf tbl (r.pushes tbl)) = r.segs.map (Seg.raw tbl) := by
  have hp := path_no tbl g r wf
  unfold rawSegments pathOf
  rw [buildBuf_eq]
  have hpath : (splitFirst 63 (pathBytes tbl r.segs ++ queryBytes tbl r.query)).1 = pathBytes tbl r.segs := by
    unfold queryBytes
    split
    · simp [splitFirst_not_mem 63 _ hp.1]
    · rw [splitFirst_append 63 _ _ hp.1]
  rw [hpath]
  unfold pathBytes
  apply tail_splitOn_joinSegs
  intro s hs; simp only [List.mem_map] at hs
  obtain ⟨sg, hsg, rfl⟩ := hs; exact (raw_no tbl g r wf sg hsg).1

theorem pair_props (tbl : List Nat) (g : Good tbl) (kv : List Nat × List Nat)
    (hk : Bytes kv.1) (hv : Bytes kv.2) :
    38 ∉ pair tbl kv ∧ 35 ∉ pair tbl kv ∧ pair tbl kv ≠ [] ∧
    splitFirst 61 (pair tbl kv) = (encode tbl kv.1, some (encode tbl kv.2)) := by
  have h1 := C07_no_delimiter tbl g kv.1 hk
  have h2 := C07_no_delimiter tbl g kv.2 hv
  refine ⟨?_, ?_, ?_, ?_⟩
  · simp only [pair, List.mem_append, List.mem_cons]; rintro (h | h | h)
    · exact h1.2.2.2.1 h
    · cases h
    · exact h2.2.2.2.1 h
  · simp only [pair, List.mem_append, List.mem_cons]; rintro (h | h | h)
    · exact h1.2.2.1 h
    · cases h
    · exact h2.2.2.1 h
  · simp [pair]
  · exact splitFirst_append 61 _ _ h1.2.2.2.2.1

/-- **exactly one pair per supplied value, in order, decoding to it**: with no query parameter the
    URI has no query; otherwise the server's query parser returns the supplied pairs -/
theorem C07_pairs (tbl : List Nat) (g : Good tbl) (r : Req) (wf : WF r) :
    (r.query = [] → queryOf (buildBuf tbl (r.pushes tbl)) = none) ∧
    (r.query ≠ [] → ∃ q, queryOf (buildBuf tbl (r.pushes tbl)) = some q ∧ parseQuery q = r.query) := by
  have hp := path_no tbl g r wf
  unfold queryOf
  rw [buildBuf_eq]
  constructor
  · intro hq; simp [hq, queryBytes, splitFirst_not_mem 63 _ hp.1]
  · intro hq
    have hne : r.query.isEmpty = false := by cases h : r.query <;> simp_all
    refine ⟨joinWith 38 (r.query.map (pair tbl)), ?_, ?_⟩
    · simp only [queryBytes, hne, Bool.false_eq_true, if_false]
      rw [splitFirst_append 63 _ _ hp.1]
    · unfold parseQuery
      rw [splitOn_joinWith 38 _ (by simpa using hq)]
      · have hall : ∀ p ∈ r.query.map (pair tbl), (!p.isEmpty) = true := by
          intro p hpm; simp only [List.mem_map] at hpm
          obtain ⟨kv, hkv, rfl⟩ := hpm
          have := (pair_props tbl g kv (wf.keys kv hkv).1 (wf.keys kv hkv).2).2.2.1
          cases hpp : pair tbl kv <;> simp_all
        rw [List.filter_eq_self.mpr hall, List.map_map]
        conv => rhs; rw [← List.map_id r.query]
        apply List.map_congr_left
        intro kv hkv
        have hk := (wf.keys kv hkv).1
        have hv := (wf.keys kv hkv).2
        simp only [Function.comp, (pair_props tbl g kv hk hv).2.2.2, Option.getD_some,
          (C07_decode_encode tbl g kv.1 hk).2, (C07_decode_encode tbl g kv.2 hv).2, id]
      · intro p hpm; simp only [List.mem_map] at hpm
        obtain ⟨kv, hkv, rfl⟩ := hpm
        exact (pair_props tbl g kv (wf.keys kv hkv).1 (wf.keys kv hkv).2).1

theorem not_mem_joinWith (d e : Nat) (hde : d ≠ e) (ps : List (List Nat)) (h : ∀ p ∈ ps, d ∉ p) :
    d ∉ joinWith e ps := by
  induction ps with
  | nil => simp [joinWith]
  | cons p rest ih =>
    cases rest with
    | nil => simpa [joinWith] using h p List.mem_cons_self
    | cons q qs =>
      have := ih (fun x hx => h x (List.mem_cons_of_mem _ hx))
      simp only [joinWith, List.mem_append, List.mem_cons]
      rintro (h1 | h1 | h1)
      · exact h p List.mem_cons_self h1
      · exact hde h1
      · exact this h1

/-- **no fragment**: `#` never occurs in the built URI -/
theorem C07_no_fragment (tbl : List Nat) (g : Good tbl) (r : Req) (wf : WF r) :
    35 ∉ buildBuf tbl (r.pushes tbl) := by
  rw [buildBuf_eq]
  simp only [List.mem_append]
  rintro (h | h)
  · exact (path_no tbl g r wf).2 h
  · unfold queryBytes at h
    split at h
    · cases h
    · simp only [List.mem_cons] at h
      rcases h with h | h
      · cases h
      · refine not_mem_joinWith 35 38 (by decide) _ ?_ h
        intro p hpm; simp only [List.mem_map] at hpm
        obtain ⟨kv, hkv, rfl⟩ := hpm
        exact (pair_props tbl g kv (wf.keys kv hkv).1 (wf.keys kv hkv).2).2.1

/-- **valid syntax**: with the extracted table, every byte of an escaped value is `unreserved`, one of
    `! ' ( ) *`, or part of a `%XX` triplet — all legal in an RFC 3986 path segment and query -/
theorem C07_value_alphabet (v : List Nat) (hv : Bytes v) (x : Nat) (hx : x ∈ encode Gen.Uri.component v) :
    isPlainUriByte x = true ∨ x = 37 := by
  rcases mem_encode _ v hv x hx with ⟨hm, hns⟩ | h | h
  · by_cases hlt : x < 128
    · exact .inl (gen_component_alphabet ⟨x, hlt⟩ hns)
    · simp [inSet] at hns; omega
  · exact .inr h
  · left
    unfold isUpperHex at h; unfold isPlainUriByte
    simp only [Bool.or_eq_true, Bool.and_eq_true, decide_eq_true_eq] at h ⊢
    omega

/-- `build` completes whenever the request has a path (every generated client: the template of a definition begins
    with `/`) and the URI is within `http::Uri`'s length limit … -/
theorem C07_build_total_partial (tbl : List Nat) (r : Req) (hs : r.segs ≠ [])
    (h : (buildBuf tbl (r.pushes tbl)).length ≤ maxUriLen) :
    build tbl (r.pushes tbl) = .uri (buildBuf tbl (r.pushes tbl)) := by
  unfold build
  have hb := buildBuf_eq tbl r
  cases hsg : r.segs with
  | nil => exact absurd hsg hs
  | cons s ss =>
    have : ∃ rest, buildBuf tbl (r.pushes tbl) = 47 :: rest := by
      rw [hb, hsg]; simp [pathBytes, joinSegs]
    obtain ⟨rest, hr⟩ := this
    simp only [hr] at h ⊢
    rw [if_pos h]

/-- … and **panics** beyond it: the statement's "rather than panicking" is false of the code for a
    parameter value longer than 65 533 bytes (recorded as a known finding) -/
theorem C07_build_panics_witness :
    build Gen.Uri.component [.pathParam (List.replicate 65534 97)] = .panic := by
  have h97 : inSet Gen.Uri.component 97 = false := by decide
  have henc : ∀ n, encode Gen.Uri.component (List.replicate n 97) = List.replicate n 97 := by
    intro n; induction n with
    | zero => simp [encode]
    | succ n ih => rw [List.replicate_succ, encode, h97]; simp [ih]
  unfold build buildBuf
  simp only [List.foldl_cons, List.foldl_nil, Builder.push, henc, List.nil_append,
    List.length_cons, List.length_replicate, maxUriLen]
  rw [if_neg (by omega)]

/-- … and **panics** for a request without a single path segment: `#[conjure_client]` accepts `path = ""` (path.rs:
    "paths must either be empty or start with `/`"), and every call of such a method panics in `build`, with or
    without query arguments; so does a call of a method whose template holds only sequence parameters when all of
    them are given no text (recorded as a known finding) -/
theorem C07_build_panics_no_path (tbl : List Nat) (q : List (List Nat × List Nat)) :
    build tbl (Req.pushes tbl { segs := [], query := q }) = .panic := by
  unfold build
  rw [buildBuf_eq]
  cases q with
  | nil => simp [pathBytes, joinSegs, queryBytes]
  | cons kv rest => simp [pathBytes, joinSegs, queryBytes]

/-! #### clients derived by `#[conjure_client]`: any template, any arguments -/
section Macro
open ConjureVerif.MacroEmit

/-- the functions of conjure-macros the model of the derivation transcribes -/
theorem gen_macro_sources :
    Gen.MacroPathSrc.hashes.lookup "fn parse" = some 6349193773656881568 /- "{letpath=path_lit.value();ifpath.is_empty(){returnOk(vec![]);}letSome(path)=path.strip_prefix('/')else{returnErr(Error::new_spanned(path_lit,\"pathsmusteitherbeemptyorstartwith`/`\",));};letcomponents=path.split('/').map(|component|{matchcomponent.strip_prefix('{').and_then(|c|c.strip_suffix('}')){Some(parameter)=>PathComponent::Parameter(parameter.to_string()),None=>PathComponent::Literal(component.to_string()),}}).collect();Ok(components)}" -/ ∧
    Gen.MacroClientSrc.hashes.lookup "fn add_path_components" = some 11982624397980029467 /- "{letpath_params=endpoint.args.iter().filter_map(|a|matcha{ArgType::Path(param)=>Some((param.attr.name(&param.ident),param)),_=>None,}).collect::<HashMap<_,_>>();letmutpath_writes=vec![];letmutliteral_buf=String::new();forcomponentin&endpoint.path{matchcomponent{PathComponent::Literal(lit)=>{literal_buf.push('/');literal_buf.push_str(&percent_encoding::percent_encode(lit.as_bytes(),COMPONENT).to_string(),);}PathComponent::Parameter(param)=>{if!literal_buf.is_empty(){path_writes.push(quote!{#builder.push_literal(#literal_buf);});literal_buf=String::new();}letparam=path_params[param];letident=&param.ident;letencoder=param.attr.encoder.as_ref().map_or_else(||quote!(conjure_http::client::DisplayEncoder),|e|quote!(#e),);path_writes.push(quote!{let__path_args=<#encoderasconjure_http::client::EncodeParam<_>>::encode(#ident)?;for__path_argin__path_args{#builder.push_path_parameter_raw(&__path_arg);}});}}}if!literal_buf.is_empty(){path_writes.push(quote!{#builder.push_literal(#literal_buf);});}quote!{#(#path_writes)*}}" -/ ∧
    Gen.MacroClientSrc.hashes.lookup "fn add_query_arg" = some 5830468533810908243 /- "{letident=&arg.ident;letname=percent_encoding::percent_encode(arg.attr.name.value().as_bytes(),COMPONENT).to_string();letencoder=arg.attr.encoder.as_ref().map_or_else(||quote!(conjure_http::client::DisplayEncoder),|e|quote!(#e),);quote!{let__query_args=<#encoderasconjure_http::client::EncodeParam<_>>::encode(#ident)?;for__query_argin__query_args{#builder.push_query_parameter_raw(#name,&__query_arg);}}}" -/ := by decide +kernel

/-- **a derived method's URI is a well-formed request's URI**: for every template the macro accepts, every
    assignment of path and query arguments and every list of texts their encoders return, the statements the macro
    derives write the bytes of a request in normal form — one constant segment per literal component, escaped at
    expansion time and so free of `/ ? #` whatever the template says; one segment per text of the argument a
    `{name}` component names; one pair per text of each query argument under its escaped key.  `C07_segments`,
    `C07_pairs`, `C07_no_fragment` therefore hold of it. -/
theorem C07_macro_request (tbl : List Nat) (g : Good tbl) (tmpl : List Comp) (pathArgs queryArgs : List MArg)
    (vals : Nat → List (List Nat)) (cs : List MCall) (h : writes tbl tmpl pathArgs queryArgs = some cs)
    (hl : ∀ l, Comp.lit l ∈ tmpl → Bytes l) (hv : ∀ i, ∀ v ∈ vals i, Bytes v) (hk : ∀ a ∈ queryArgs, Bytes a.name) :
    buildBuf tbl (pushes vals cs) = buildBuf tbl ((macroReq tbl tmpl pathArgs queryArgs vals).pushes tbl) ∧
    WF (macroReq tbl tmpl pathArgs queryArgs vals) := by
  refine ⟨macro_buildBuf tbl tmpl pathArgs queryArgs vals cs h, ?_, ?_, ?_⟩
  · intro s hs
    simp only [macroReq, List.mem_flatMap] at hs
    obtain ⟨c, hc, hs⟩ := hs
    cases c with
    | lit l =>
      simp [segsOf] at hs; subst hs
      have := C07_no_delimiter tbl g l (hl l hc)
      exact ⟨this.1, this.2.1, this.2.2.1⟩
    | param n =>
      simp only [segsOf] at hs
      split at hs
      · simp at hs
      · cases hs
  · intro v hvm
    simp only [macroReq, List.mem_flatMap] at hvm
    obtain ⟨c, hc, hvm⟩ := hvm
    cases c with
    | lit l => simp [segsOf] at hvm
    | param n =>
      simp only [segsOf] at hvm
      split at hvm
      · rename_i a _
        simp only [List.mem_map] at hvm
        obtain ⟨w, hw, he⟩ := hvm
        cases he
        exact hv a.slot v hw
      · cases hvm
  · intro kv hkv
    simp only [macroReq, List.mem_flatMap, List.mem_map] at hkv
    obtain ⟨a, ha, w, hw, rfl⟩ := hkv
    exact ⟨hk a ha, hv a.slot w hw⟩

/-- **exactly the template's segments**: the path a derived method builds has one raw segment per literal and one per
    text supplied for a parameter, in template order — a trailing literal, a literal between two parameters, an empty
    component are all there; nothing a value contains adds or removes one -/
theorem C07_macro_segments (tbl : List Nat) (g : Good tbl) (tmpl : List Comp) (pathArgs queryArgs : List MArg)
    (vals : Nat → List (List Nat)) (cs : List MCall) (h : writes tbl tmpl pathArgs queryArgs = some cs)
    (hl : ∀ l, Comp.lit l ∈ tmpl → Bytes l) (hv : ∀ i, ∀ v ∈ vals i, Bytes v) (hk : ∀ a ∈ queryArgs, Bytes a.name) :
    rawSegments (buildBuf tbl (pushes vals cs)) =
      (tmpl.flatMap (segsOf tbl pathArgs vals)).map (Seg.raw tbl) := by
  obtain ⟨hb, wf⟩ := C07_macro_request tbl g tmpl pathArgs queryArgs vals cs h hl hv hk
  rw [hb, C07_segments tbl g _ wf]; rfl

/-- **the server reads back the supplied query values under the declared keys**, whatever bytes keys and values hold -/
theorem C07_macro_pairs (tbl : List Nat) (g : Good tbl) (tmpl : List Comp) (pathArgs queryArgs : List MArg)
    (vals : Nat → List (List Nat)) (cs : List MCall) (h : writes tbl tmpl pathArgs queryArgs = some cs)
    (hl : ∀ l, Comp.lit l ∈ tmpl → Bytes l) (hv : ∀ i, ∀ v ∈ vals i, Bytes v) (hk : ∀ a ∈ queryArgs, Bytes a.name)
    (hq : queryArgs.flatMap (fun a => (vals a.slot).map (fun v => (a.name, v))) ≠ []) :
    ∃ q, queryOf (buildBuf tbl (pushes vals cs)) = some q ∧
      parseQuery q = queryArgs.flatMap (fun a => (vals a.slot).map (fun v => (a.name, v))) := by
  obtain ⟨hb, wf⟩ := C07_macro_request tbl g tmpl pathArgs queryArgs vals cs h hl hv hk
  rw [hb]; exact (C07_pairs tbl g _ wf).2 hq

/-- what `#[conjure_endpoints]` derives for a path and a query argument: the key it looks the value up under is the
declared name (for a path argument without one, its identifier), never a name meant for logs and never an escaped form -/
theorem gen_macro_server_sources :
    Gen.MacroEndpointsSrc.hashes.lookup "fn generate_path_arg" = some 10877479656661404801 /- "{letname=&arg.ident;letparam=match&arg.params.name{Some(name)=>name.value(),None=>arg.ident.to_string(),};letlog_as=arg.log_as();letdecoder=arg.params.decoder.as_ref().map_or_else(||quote!(conjure_http::server::FromStrDecoder),|d|quote!(#d),);quote!{let#name=conjure_http::private::path_param::<_,#decoder>(&self.runtime,&#parts,#param,#log_as,)?;}}" -/ ∧
    Gen.MacroEndpointsSrc.hashes.lookup "fn generate_query_arg" = some 13113819969034372553 /- "{letname=&arg.ident;letkey=&arg.params.name;letlog_as=arg.log_as();letdecoder=arg.params.decoder.as_ref().map_or_else(||quote!(conjure_http::server::FromStrDecoder),|d|quote!(#d),);quote!{let#name=conjure_http::private::query_param::<_,#decoder>(&self.runtime,&#query_params,#key,#log_as,)?;}}" -/ := by decide +kernel

/-- **the derived server reads what the derived client wrote**: for every template, every assignment of arguments with
distinct query keys and every list of texts, the values the derived server finds under a query argument's declared
key in the URI the derived client built are exactly the texts supplied for it, in order — whatever bytes keys and
texts hold -/
theorem C07_macro_server_reads (tbl : List Nat) (g : Good tbl) (tmpl : List Comp) (pathArgs queryArgs : List MArg)
    (vals : Nat → List (List Nat)) (cs : List MCall) (h : writes tbl tmpl pathArgs queryArgs = some cs)
    (hl : ∀ l, Comp.lit l ∈ tmpl → Bytes l) (hv : ∀ i, ∀ v ∈ vals i, Bytes v) (hk : ∀ a ∈ queryArgs, Bytes a.name)
    (hd : (queryArgs.map (·.name)).Nodup)
    (hq : queryArgs.flatMap (fun a => (vals a.slot).map (fun v => (a.name, v))) ≠ []) :
    ∃ q, queryOf (buildBuf tbl (pushes vals cs)) = some q ∧
      ∀ a ∈ queryArgs, serverQueryValues (parseQuery q) a.name = vals a.slot := by
  obtain ⟨q, h1, h2⟩ := C07_macro_pairs tbl g tmpl pathArgs queryArgs vals cs h hl hv hk hq
  refine ⟨q, h1, ?_⟩
  intro a ha
  rw [h2]
  exact serverQueryValues_flatMap vals queryArgs a ha hd

/-- **the template is read as written**: the components `parse` returns print back to the template, none of them
    holds a `/`, and the derivation succeeds exactly when every `{name}` names a path argument -/
theorem C07_macro_template (p : List Nat) (comps : List Comp) (h : parse p = some comps) :
    (p = [] ∧ comps = [] ∨ p ≠ [] ∧ joinSegs (comps.map Comp.text) = p) ∧ (∀ c ∈ comps, 47 ∉ c.text) := by
  refine ⟨parse_text p comps h, ?_⟩
  intro c hc
  unfold parse at h
  split at h
  · simp at h; subst h; cases hc
  · rename_i r
    simp only [Option.some.injEq] at h; subst h
    simp only [List.mem_map] at hc
    obtain ⟨s, hs, rfl⟩ := hc
    rw [compOf_text]; exact splitOn_no_sep 47 r s hs
  · cases h

theorem C07_macro_derivable (tbl : List Nat) (tmpl : List Comp) (pathArgs queryArgs : List MArg) :
    (writes tbl tmpl pathArgs queryArgs).isSome =
      tmpl.all (named pathArgs) := by
  unfold writes; rw [Option.isSome_map, pathWrites_isSome]

/-- `/a b/{x}/c/d` with `x` given `["p/q", ""]` and a query argument `k&` given `["1"]`:
    `/a%20b/p%2Fq//c/d?k%26=1` -/
example : (writes Gen.Uri.component [.lit [97, 32, 98], .param [120], .lit [99], .lit [100]] [⟨[120], 0⟩] [⟨[107, 38], 1⟩]).map
      (fun cs => buildBuf Gen.Uri.component (pushes (fun i => if i = 0 then [[112, 47, 113], []] else [[49]]) cs)) =
    some [47, 97, 37, 50, 48, 98, 47, 112, 37, 50, 70, 113, 47, 47, 99, 47, 100, 63, 107, 37, 50, 54, 61, 49] := by
  decide

example : parse [47, 97, 47, 123, 120, 125, 47, 123, 47, 123, 125] =
    some [.lit [97], .param [120], .lit [123], .param []] := by decide
end Macro

/-! #### non-vacuity -/
example : WF { segs := [.lit [97], .param [47, 63, 35, 37, 32, 195, 169]], query := [([107], [38, 61, 43])] } := by
  constructor
  · intro s hs; simp at hs; subst hs; decide
  · intro v hv; simp at hv; subst hv; intro b hb; simp at hb; omega
  · intro kv hkv; simp at hkv; subst hkv; constructor <;> intro b hb <;> simp at hb <;> omega

example : buildBuf Gen.Uri.component
    (Req.pushes Gen.Uri.component { segs := [.lit [97], .param [47, 32]], query := [([107], [38])] }) =
    [47, 97, 47, 37, 50, 70, 37, 50, 48, 63, 107, 61, 37, 50, 54] := by decide

end ConjureVerif.C07
