import ConjureVerif.Lemmas.WrapShape
import ConjureVerif.Lemmas.Base64Canon
import ConjureVerif.Gen.WrapTable
import ConjureVerif.Gen.JsonSerSrc
import ConjureVerif.Gen.JsonDeSrc
import ConjureVerif.Gen.SmileSerSrc
import ConjureVerif.Gen.SmileDeClientSrc
import ConjureVerif.Gen.SmileDeServerSrc
/-
C01 — JSON and Smile wrappers round-trip every Conjure value in Conjure encoding.

`Wrap.ser` / `Wrap.de` interpret the wrapper chain over the whole serde data model; they descend at
exactly the entry points where `Override` re-wraps.  That the source really re-wraps at every such
entry point — with `B` everywhere and `B::KeyBehavior` for map keys — is the instantiation lemma
`gen_ser_table` / `gen_de_table` over tables re-extracted from ser.rs and de/mod.rs on every run.
-/
set_option linter.unusedSimpArgs false
namespace ConjureVerif.C01
open ConjureVerif ConjureVerif.Data ConjureVerif.Wrap

/-! #### instantiation: the re-wrap structure of the source -/

theorem gen_extract_ok : Gen.WrapTable.extractOk = true := by decide

/-- serializer side: every nested `Serialize` and every compound serializer is re-wrapped with `B`;
    map keys with `B::KeyBehavior`; bool / f32 / f64 / bytes dispatch to the behaviour;
    `is_human_readable` is forwarded -/
theorem gen_ser_table : Gen.WrapTable.serTable = [
  ("Serializer", "delegate!", ["serialize_i8", "serialize_i16", "serialize_i32", "serialize_i64", "serialize_i128", "serialize_u8", "serialize_u16", "serialize_u32", "serialize_u64", "serialize_u128", "serialize_char", "serialize_str"], []),
  ("Serializer", "behavior!", ["serialize_bool", "serialize_f32", "serialize_f64", "serialize_bytes"], []),
  ("Serializer", "serialize_none", [], []),
  ("Serializer", "serialize_some", ["B"], []),
  ("Serializer", "serialize_unit", [], []),
  ("Serializer", "serialize_unit_struct", [], []),
  ("Serializer", "serialize_unit_variant", [], []),
  ("Serializer", "serialize_newtype_struct", ["B"], []),
  ("Serializer", "serialize_newtype_variant", ["B"], []),
  ("Serializer", "serialize_seq", ["B"], []),
  ("Serializer", "serialize_tuple", ["B"], []),
  ("Serializer", "serialize_tuple_struct", ["B"], []),
  ("Serializer", "serialize_tuple_variant", ["B"], []),
  ("Serializer", "serialize_map", ["B"], []),
  ("Serializer", "serialize_struct", ["B"], []),
  ("Serializer", "serialize_struct_variant", ["B"], []),
  ("Serializer", "is_human_readable", [], []),
  ("Serialize", "serialize", ["B"], []),
  ("SerializeSeq", "serialize_element", ["B"], []),
  ("SerializeSeq", "end", [], []),
  ("SerializeTuple", "serialize_element", ["B"], []),
  ("SerializeTuple", "end", [], []),
  ("SerializeTupleStruct", "serialize_field", ["B"], []),
  ("SerializeTupleStruct", "end", [], []),
  ("SerializeTupleVariant", "serialize_field", ["B"], []),
  ("SerializeTupleVariant", "end", [], []),
  ("SerializeMap", "serialize_key", ["B::KeyBehavior"], []),
  ("SerializeMap", "serialize_value", ["B"], []),
  ("SerializeMap", "end", [], []),
  ("SerializeStruct", "serialize_field", ["B"], []),
  ("SerializeStruct", "skip_field", [], []),
  ("SerializeStruct", "end", [], []),
  ("SerializeStructVariant", "serialize_field", ["B"], []),
  ("SerializeStructVariant", "skip_field", [], []),
  ("SerializeStructVariant", "end", [], [])] := by decide +kernel

theorem gen_ser_macros :
    Gen.WrapTable.serMacro_delegate = ([], []) ∧ Gen.WrapTable.serMacro_behavior = ([], ["$name"]) ∧
    Gen.WrapTable.serMacro_impl_serialize_body.1.all (· == "$behavior") = true ∧
    Gen.WrapTable.serMacro_impl_serialize_body.1.length = 15 := by decide +kernel

/-- deserializer side: visitors, seeds, sequence / map / enum / variant accesses are all re-wrapped
    with `B`, keys with `B::KeyBehavior`; bool / f32 / f64 / bytes / byte_buf / struct dispatch to the
    behaviour -/
theorem gen_de_table : Gen.WrapTable.deTable = [
  ("Deserializer", "delegate_deserialize!", ["deserialize_any", "deserialize_i8", "deserialize_i16", "deserialize_i32", "deserialize_i64", "deserialize_i128", "deserialize_u8", "deserialize_u16", "deserialize_u32", "deserialize_u64", "deserialize_u128", "deserialize_char", "deserialize_str", "deserialize_string", "deserialize_option", "deserialize_unit", "deserialize_seq", "deserialize_map", "deserialize_identifier", "deserialize_ignored_any"], []),
  ("Deserializer", "behavior!", ["deserialize_bool", "deserialize_f32", "deserialize_f64", "deserialize_bytes", "deserialize_byte_buf"], []),
  ("Deserializer", "deserialize_unit_struct", ["B"], []),
  ("Deserializer", "deserialize_newtype_struct", ["B"], []),
  ("Deserializer", "deserialize_tuple", ["B"], []),
  ("Deserializer", "deserialize_tuple_struct", ["B"], []),
  ("Deserializer", "deserialize_struct", ["B"], ["deserialize_struct"]),
  ("Deserializer", "deserialize_enum", ["B"], []),
  ("Deserializer", "is_human_readable", [], []),
  ("Visitor", "expecting", [], []),
  ("Visitor", "delegate_visit!", ["visit_bool", "visit_i8", "visit_i16", "visit_i32", "visit_i64", "visit_i128", "visit_u8", "visit_u16", "visit_u32", "visit_u64", "visit_u128", "visit_f32", "visit_f64", "visit_char", "visit_str", "visit_borrowed_str", "visit_string", "visit_bytes", "visit_borrowed_bytes", "visit_byte_buf"], []),
  ("Visitor", "visit_none", [], []),
  ("Visitor", "visit_some", ["B"], []),
  ("Visitor", "visit_unit", [], []),
  ("Visitor", "visit_newtype_struct", ["B"], []),
  ("Visitor", "visit_seq", ["B"], []),
  ("Visitor", "visit_map", ["B"], []),
  ("Visitor", "visit_enum", ["B"], []),
  ("SeqAccess", "next_element_seed", ["B"], []),
  ("SeqAccess", "size_hint", [], []),
  ("MapAccess", "next_key_seed", ["B::KeyBehavior"], []),
  ("MapAccess", "next_value_seed", ["B"], []),
  ("MapAccess", "size_hint", [], []),
  ("EnumAccess", "variant_seed", ["B", "B(inferred)"], []),
  ("VariantAccess", "unit_variant", [], []),
  ("VariantAccess", "newtype_variant_seed", ["B"], []),
  ("VariantAccess", "tuple_variant", ["B"], []),
  ("VariantAccess", "struct_variant", ["B"], []),
  ("DeserializeSeed", "deserialize", ["B"], [])] := by decide +kernel

theorem gen_de_macros :
    Gen.WrapTable.deMacro_delegate_deserialize = (["B"], []) ∧ Gen.WrapTable.deMacro_behavior = (["B"], ["$method"]) ∧
    Gen.WrapTable.deMacro_delegate_visit = ([], []) ∧
    Gen.WrapTable.deMacro_impl_deserialize_body.1.all (· == "$behavior") = true ∧
    Gen.WrapTable.deMacro_impl_deserialize_body.1.length = 7 := by decide +kernel

/-- the JSON behaviours the interpreter's leaf cases transcribe (json/ser.rs) -/
theorem gen_json_ser_behaviors :
    Gen.JsonSerSrc.hashes.lookup "Behavior for ValueBehavior::serialize_f64" = some 12246971936739892778 /- "{ifv.is_nan(){ser.serialize_str(\"NaN\")}elseifv==f64::INFINITY{ser.serialize_str(\"Infinity\")}elseifv==f64::NEG_INFINITY{ser.serialize_str(\"-Infinity\")}else{ser.serialize_f64(v)}}" -/ ∧
    Gen.JsonSerSrc.hashes.lookup "Behavior for ValueBehavior::serialize_bytes" = some 16583646635135397205 /- "{ser.collect_str(&Base64Display::new(v,&STANDARD))}" -/ ∧
    Gen.JsonSerSrc.hashes.lookup "Behavior for KeyBehavior::serialize_bool" = some 1329447138230407948 /- "{ifv{ser.serialize_str(\"true\")}else{ser.serialize_str(\"false\")}}" -/ ∧
    Gen.JsonSerSrc.hashes.lookup "Behavior for KeyBehavior::serialize_f64" = some 13998938644453356541 /- "{ifv.is_nan(){ser.serialize_str(\"NaN\")}elseifv==f64::INFINITY{ser.serialize_str(\"Infinity\")}elseifv==f64::NEG_INFINITY{ser.serialize_str(\"-Infinity\")}else{ser.collect_str(&v)}}" -/ ∧
    Gen.JsonSerSrc.hashes.lookup "Behavior for KeyBehavior::serialize_bytes" = some 16583646635135397205 /- "{ser.collect_str(&Base64Display::new(v,&STANDARD))}" -/ := by
  decide +kernel

/-- Smile: raw binary, JSON's key behaviour, nothing else overridden (smile/ser.rs, smile/de) -/
theorem gen_smile_behaviors :
    Gen.SmileSerSrc.hashes.lookup "Serializer<W>::new" = some 14783835765627538931 /- "{Serializer(serde_smile::Serializer::builder().raw_binary(true).build(writer),)}" -/ ∧
    (Gen.SmileSerSrc.bodies.filter (fun p => p.1.startsWith "Behavior for ")).length = 0 ∧
    (Gen.SmileDeClientSrc.bodies.filter (fun p => p.1.startsWith "Behavior for ")).length = 0 := by
  decide +kernel

/-! #### the property -/

/-- **round trip**: every well-typed value, serialized with the Conjure JSON or Smile serializer and
    read back by the client or the server deserializer, yields the same value -/
theorem C01_roundtrip (fmt : Fmt) (side : Side) (t : Ty) (v : Val) (h : HasTy t v) :
    ∃ d, ser fmt t v = some d ∧ de fmt side t d = .ok v := rt fmt side h

theorem C01_json_roundtrip (side : Side) (t : Ty) (v : Val) (h : HasTy t v) :
    ∃ d, ser .json t v = some d ∧ de .json side t d = .ok v := rt .json side h

theorem C01_smile_roundtrip (side : Side) (t : Ty) (v : Val) (h : HasTy t v) :
    ∃ d, ser .smile t v = some d ∧ de .smile side t d = .ok v := rt .smile side h

/-- **no two values share a document** (either format): the wrapper chain loses nothing, so two well-typed
    values of one type that serialize to the same document are the same value — e.g. `NaN` and the string
    `"NaN"` never meet at one type, a binary and its text do not collide, a map keeps its key typing -/
theorem C01_ser_injective (fmt : Fmt) (t : Ty) (v w : Val) (hv : HasTy t v) (hw : HasTy t w)
    (e : ser fmt t v = ser fmt t w) : v = w := by
  obtain ⟨d, hs, hd⟩ := rt fmt .client hv
  obtain ⟨d', hs', hd'⟩ := rt fmt .client hw
  rw [e, hs'] at hs
  cases hs
  rw [hd] at hd'
  cases hd'
  rfl

/-- **standard JSON**: the JSON document of a well-typed value contains no native binary and no
    non-finite number at any depth -/
theorem C01_json_standard (t : Ty) (v : Val) (h : HasTy t v) (d : Doc) (hs : ser .json t v = some d) :
    JsonClean d := clean .json rfl h d hs

/-- **leaf spellings in JSON**: binary is padded standard Base64; NaN and the infinities are the
    strings `NaN`, `Infinity`, `-Infinity`; finite doubles are number tokens -/
theorem C01_json_leaf_spellings (bs : List Nat) (bits : Nat) :
    ser .json .bytes (.bytes bs) = some (.str (Base64.encode bs)) ∧
    ser .json .f64 (.f64 .nan) = some (.str [78, 97, 78]) ∧
    ser .json .f64 (.f64 .posInf) = some (.str [73, 110, 102, 105, 110, 105, 116, 121]) ∧
    ser .json .f64 (.f64 .negInf) = some (.str [45, 73, 110, 102, 105, 110, 105, 116, 121]) ∧
    ser .json .f64 (.f64 (.fin bits)) = some (.dbl (.fin bits)) := by
  refine ⟨rfl, rfl, rfl, rfl, rfl⟩

/-- **binary has one JSON spelling**: the string the JSON wrapper accepts for a binary value is exactly the
    string the serializer writes for the bytes it yields (canonical padding, zero trailing bits), and what it
    yields are bytes — so reading a binary and writing it again reproduces the document -/
theorem C01_json_binary_text_is_unique (s bs : List Nat) (h : deBytes .json (.str s) = .ok bs) :
    serBytes .json bs = .str s ∧ ∀ b ∈ bs, b < 256 := by
  simp only [deBytes, if_true] at h
  cases hd : Base64.decode s with
  | none => rw [hd] at h; cases h
  | some b =>
    rw [hd] at h
    cases h
    have := Base64.encode_decode s _ hd
    exact ⟨by simp only [serBytes]; rw [this.1], this.2⟩

/-- the same in key position (both formats) -/
theorem C01_binary_key_text_is_unique (s bs : List Nat) (h : deKey .bytes (.text s) = .ok (.bytes bs)) :
    serKey .bytes (.bytes bs) = some (.text s) := by
  simp only [deKey] at h
  cases hd : Base64.decode s with
  | none => rw [hd] at h; cases h
  | some b =>
    rw [hd] at h
    cases h
    simp only [serKey]
    rw [(Base64.encode_decode s _ hd).1]

example : deBytes .json (.str [65, 81, 73, 61]) = .ok [1, 2] ∧ deKey .bytes (.text [65, 81, 73, 61]) = .ok (.bytes [1, 2]) := by
  constructor <;> rfl

/-- **key spellings** (both formats): every map key is a string — booleans `true`/`false`, integers
    in decimal, non-finite doubles by name, binary as padded Base64, uuids hyphenated, strings as is,
    enums by wire name, aliases as their target -/
theorem C01_key_spellings (n : Int) (w : IntW) (s bs : List Nat) (t : Ty) (v : Val) :
    serKey .bool (.bool true) = some (.text [116, 114, 117, 101]) ∧
    serKey .bool (.bool false) = some (.text [102, 97, 108, 115, 101]) ∧
    serKey (.int w) (.int n) = some (.text (Dec.showInt n)) ∧
    serKey .f64 (.f64 .nan) = some (.text [78, 97, 78]) ∧
    serKey .f64 (.f64 .posInf) = some (.text [73, 110, 102, 105, 110, 105, 116, 121]) ∧
    serKey .f64 (.f64 .negInf) = some (.text [45, 73, 110, 102, 105, 110, 105, 116, 121]) ∧
    serKey .str (.str s) = some (.text s) ∧
    serKey .bytes (.bytes bs) = some (.text (Base64.encode bs)) ∧
    serKey .uuid (.uuid bs) = some (.text (Plain.uuidText bs)) ∧
    serKey (.newtype t) (.newtype v) = serKey t v := by
  refine ⟨rfl, rfl, rfl, rfl, rfl, rfl, rfl, rfl, rfl, rfl⟩

/-- **Smile uses the same keys**: member names of the Smile document equal those of the JSON
    document, in the same order; Smile carries binary and floats natively -/
theorem C01_smile_same_keys (t : Ty) (v : Val) (h : HasTy t v) (dj ds : Doc)
    (hj : ser .json t v = some dj) (hs : ser .smile t v = some ds) : keysOf dj = keysOf ds :=
  sameKeys h dj ds hj hs

theorem C01_smile_native (bs : List Nat) (d : Dbl) :
    ser .smile .bytes (.bytes bs) = some (.bin bs) ∧ ser .smile .f64 (.f64 d) = some (.dbl d) := by
  refine ⟨rfl, ?_⟩
  cases d <;> rfl

/-! #### non-vacuity: a struct holding an optional list of NaN under a bool-keyed map, three levels deep -/
def exTy : Ty :=
  .struct (.cons [97] (.map .bool (.option (.seq .f64))) (.cons [98] .bytes .nil))
def exVal : Val :=
  .struct (.cons (.map (.cons (.bool true) (.some (.seq (.cons (.f64 .nan) .nil))) .nil)) (.cons (.bytes [1, 2]) .nil))

example : HasTy exTy exVal := by
  refine .struct _ _ (by decide) (.cons _ _ _ _ _ ?_ (.cons _ _ _ _ _ (.bytes _ (by intro b hb; simp at hb; omega)) .nil))
  refine .map _ _ _ (.cons _ _ _ _ _ (.bool true) ?_ (.nil _ _))
  refine .some _ _ (.seq _ _ (.cons _ _ _ (.f64 .nan) (.nil _))) ?_
  intro fmt h
  cases fmt <;> simp [ser, serL] at h

end ConjureVerif.C01
