import ConjureVerif.Model.Idents
import ConjureVerif.Lemmas.GenOrder
import ConjureVerif.Lemmas.TypePath
import ConjureVerif.Lemmas.Boxing
import ConjureVerif.Lemmas.RustType
import ConjureVerif.Gen.CodegenObjectsSrc
import ConjureVerif.Gen.CodegenUnionsSrc
import ConjureVerif.Gen.CodegenAliasesSrc
import ConjureVerif.Gen.CodegenLibSrc
import ConjureVerif.Gen.CodegenContextSrc
/-
C03 — Code generation succeeds and its output compiles for every valid definition.

No Lean model can express rustc.  What is logic here are the closed-form rules of the statement: the identifier
escaping ("Rust keywords used as field, argument, endpoint, variant or package names"), and "types spread over nested
packages" — which module a type is written to (never one that a sub-package of its package occupies) and the relative
path by which generated code names a type of another package (it resolves, from any package to any package).  These
are proved for every name and every pair of packages; everything else (type mapping, boxing, derives, builder
synthesis) is exercised, not proved: seeded IR documents are generated and the emitted module trees compiled by rustc
against the runtime crates.
-/
set_option linter.unusedSimpArgs false
namespace ConjureVerif.C03
open ConjureVerif ConjureVerif.Idents

/-! #### instantiation -/

/-- every strict or reserved keyword of editions 2018/2021 (other than `Self`, which snake_case cannot produce) is in
the list `ident_name` escapes -/
theorem gen_keywords_covered : Gen.Keywords.extractOk = true ∧
    (keywords.all (fun k => k == "Self" || Gen.Keywords.escaped.contains k)) = true := by decide +kernel

/-- no escaped name turns into another keyword by the escape itself -/
theorem gen_escape_leaves_keywords :
    (Gen.Keywords.escaped.all (fun e => !keywords.contains (e ++ "_"))) = true ∧
    (Gen.Keywords.typeEscaped.all (fun e => !keywords.contains (e ++ "_"))) = true := by decide +kernel

theorem gen_self_escaped : Gen.Keywords.typeEscaped.contains "Self" = true := by decide +kernel

/-! #### the rule, for every name -/

/-- **no field, argument, endpoint or module identifier the generator emits is a Rust keyword**, whatever the
Conjure name (given that snake_case output is never `Self`, which contains an upper-case letter) -/
theorem C03_ident_never_keyword (snake : String) (hs : snake ≠ "Self") :
    keywords.contains (identName Gen.Keywords.escaped snake) = false := by
  unfold identName
  by_cases h : Gen.Keywords.escaped.contains snake = true
  · rw [if_pos h]
    have := List.all_eq_true.mp gen_escape_leaves_keywords.1 snake (List.contains_iff_mem.mp h)
    simpa using this
  · rw [if_neg h]
    cases hk : keywords.contains snake with
    | false => rfl
    | true =>
      have := List.all_eq_true.mp gen_keywords_covered.2 snake (List.contains_iff_mem.mp hk)
      simp only [Bool.or_eq_true, beq_iff_eq] at this
      rcases this with h1 | h2
      · exact absurd h1 hs
      · exact absurd h2 h

/-- **no type identifier the generator emits is a keyword**: the only keyword that is an UpperCamelCase word is
`Self` (all others are lower-case) and it is escaped -/
theorem C03_type_ident_never_self (camel : String) :
    typeName Gen.Keywords.typeEscaped camel ≠ "Self" := by
  unfold typeName
  by_cases h : Gen.Keywords.typeEscaped.contains camel = true
  · rw [if_pos h]
    intro he
    have := List.all_eq_true.mp gen_escape_leaves_keywords.2 camel (List.contains_iff_mem.mp h)
    rw [he] at this
    revert this; decide +kernel
  · rw [if_neg h]
    intro he
    rw [he] at h
    exact h gen_self_escaped

/-! #### types spread over nested packages -/
section Modules
open ConjureVerif.GenOrder ConjureVerif.TypePath

/-- the functions of the generator the two models below transcribe -/
theorem gen_module_sources :
    Gen.CodegenLibSrc.hashes.lookup "ModuleTrie::insert" = some 6051593475104134925 /- "{matchmodule_path.split_first(){Some((first,rest))=>self.submodules.entry(first.clone()).or_insert_with(ModuleTrie::new).insert(rest,type_),None=>self.types.push(type_),}}" -/ ∧
    Gen.CodegenLibSrc.hashes.lookup "ModuleTrie::render" = some 13277887319379923158 /- "{fs::create_dir_all(dir).with_context(||format!(\"errorcreatingdirectory{}\",dir.display()))?;fortype_in&self.types{self.write_module(&dir.join(format!(\"{}.rs\",self.type_module_name(type_))),&type_.contents,)?;}for(name,module)in&self.submodules{module.render(&dir.join(name),false)?;}letroot=self.create_root_module(lib_root);letfile_name=iflib_root{\"lib.rs\"}else{\"mod.rs\"};self.write_module(&dir.join(file_name),&root)?;Ok(())}" -/ ∧
    Gen.CodegenLibSrc.hashes.lookup "ModuleTrie::type_module_name" = some 15234807820239733828 /- "{letmutname=type_.module_name.clone();whileself.submodules.contains_key(&name){name.push('_');}name}" -/ ∧
    Gen.CodegenLibSrc.hashes.lookup "ModuleTrie::create_root_module" = some 2135525283162995021 /- "{letattrs=iflib_root{quote!{#![allow(warnings)]}}else{quote!{}};letuses=self.types.iter().map(|m|{letmodule_name=self.type_module_name(m).parse::<TokenStream>().unwrap();lettype_names=m.type_names.iter().map(|n|n.parse::<TokenStream>().unwrap());quote!{#[doc(inline)]pubuseself::#module_name::{#(#type_names),*};}});lettype_mods=self.types.iter().map(|m|{letmodule_name=self.type_module_name(m).parse::<TokenStream>().unwrap();quote!{pubmod#module_name;}});letsub_mods=self.submodules.keys().map(|v|{letmodule_name=v.parse::<TokenStream>().unwrap();quote!{pubmod#module_name;}});quote!{#attrs#(#uses)*#(#type_mods)*#(#sub_mods)*}}" -/ ∧
    Gen.CodegenContextSrc.hashes.lookup "Context::module_path" = some 11370191910348346280 /- "{letraw=self.raw_module_path(name.package());ifraw.starts_with(&self.strip_prefix){raw[self.strip_prefix.len()..].to_vec()}else{raw}}" -/ ∧
    Gen.CodegenContextSrc.hashes.lookup "Context::raw_module_path" = some 4019254541348680121 /- "{package.split('.').map(|s|self.ident_name(s)).collect()}" -/ ∧
    Gen.CodegenContextSrc.hashes.lookup "Context::type_path" = some 12465151843134716927 /- "{letthis_module_path=self.module_path(this_type);letother_module_path=self.module_path(other_type);letshared_prefix=this_module_path.iter().zip(&other_module_path).take_while(|(a,b)|a==b).count();letmutcomponents=vec![quote!(super)];for_in0..this_module_path.len()-shared_prefix{components.push(quote!(super));}forcomponentin&other_module_path[shared_prefix..]{components.push(component.parse().unwrap());}letother_type_name=self.type_name(other_type.name());quote!(#(#components::)*#other_type_name)}" -/ := by decide +kernel

/-- **a type's module never shares its name with a sub-package's module**: in every module of the generated tree,
whatever types and sub-packages it holds, the file a type is written to (and the `pub mod` that declares it) goes by
a name none of the sub-package modules beside it has — a type `Inner` next to a package `….inner` is written to
`inner_`; and a name that collides with nothing is kept as it is -/
theorem C03_type_module_free (types : List (String × String)) (subs : Subs) (ty : String × String) (_h : ty ∈ types) :
    typeModule (Subs.names subs) ty.1 ∉ Subs.names subs ∧
    (ty.1 ∉ Subs.names subs → typeModule (Subs.names subs) ty.1 = ty.1) ∧
    (∃ k, typeModule (Subs.names subs) ty.1 = ty.1 ++ us k) :=
  ⟨typeModule_not_mem _ _, typeModule_eq _ _, typeModule_form _ _⟩

/-- … and two types stay in two modules (module names of one package differ by more than trailing underscores:
they are snake-cased type names, or a keyword followed by one underscore) -/
theorem C03_type_modules_distinct (subs : List String) (t1 t2 : String) (h : core t1 ≠ core t2) :
    typeModule subs t1 ≠ typeModule subs t2 := typeModule_injective subs t1 t2 h

/-- **the path generated code uses for a type of another package resolves to it**: for any two module paths (any
packages, any `stripPrefix`), read from the referring type's own module the emitted `super::…::name::Type` leads to
the module of the other package, where the type is re-exported; and it holds no more `super`s than there are modules
above the referring type -/
theorem C03_type_path_resolves (strip thisPkg otherPkg : List String) (m typeName : String) :
    resolve (modulePath strip thisPkg ++ [m]) (typePath (modulePath strip thisPkg) (modulePath strip otherPkg) typeName) =
      some (modulePath strip otherPkg ++ [typeName]) ∧
    ((typePath (modulePath strip thisPkg) (modulePath strip otherPkg) typeName).filter (· == .super)).length ≤
      (modulePath strip thisPkg).length + 1 :=
  ⟨typePath_resolves _ _ _ _, typePath_supers _ _ _⟩

example : typeModule ["inner", "other"] "inner" = "inner_" ∧ typeModule ["inner", "inner_"] "inner" = "inner__" ∧
    typeModule ["inner"] "leaf" = "leaf" := by decide +kernel

example : showPath (typePath (modulePath ["com", "palantir"] ["com", "palantir", "a", "b"])
    (modulePath ["com", "palantir"] ["com", "palantir", "a", "c", "d"]) "Leaf") = "super::super::c::d::Leaf" := by
  decide +kernel
end Modules

/-! #### types recursive through optionals and collections -/
section Recursion
open ConjureVerif.Boxing

/-- the functions that decide what is held by value and what behind a `Box`, and the three places that call them -/
theorem gen_boxing_sources :
    Gen.CodegenContextSrc.hashes.lookup "Context::is_double" = some 3262876863850417085 /- "{matchdef{Type::Primitive(PrimitiveType::Double)=>true,Type::Optional(def)=>self.is_double(def.item_type()),Type::List(def)=>self.is_double(def.item_type()),Type::Map(def)=>self.is_double(def.value_type()),Type::Primitive(_)|Type::Set(_)|Type::Reference(_)=>false,Type::External(def)=>self.is_double(def.fallback()),}}" -/ ∧
    Gen.CodegenContextSrc.hashes.lookup "Context::needs_box" = some 6212673282279784620 /- "{matchdef{Type::Primitive(_)=>false,Type::Optional(def)=>self.needs_box(def.item_type()),Type::List(_)|Type::Set(_)|Type::Map(_)=>false,Type::Reference(def)=>self.ref_needs_box(def),Type::External(def)=>self.needs_box(def.fallback()),}}" -/ ∧
    Gen.CodegenContextSrc.hashes.lookup "Context::ref_needs_box" = some 16980039490533604179 /- "{letctx=&self.types[name];match&ctx.def{TypeDefinition::Alias(def)=>self.needs_box(def.alias()),TypeDefinition::Enum(_)=>false,TypeDefinition::Object(_)|TypeDefinition::Union(_)=>true,}}" -/ ∧
    Gen.CodegenContextSrc.hashes.lookup "Context::rust_type_inner" = some 759703829858553174 /- "{matchdef{Type::Primitive(def)=>match*def{PrimitiveType::String=>self.string_ident(this_type),PrimitiveType::Datetime=>quote!(conjure_object::DateTime<conjure_object::Utc>),PrimitiveType::Integer=>quote!(i32),PrimitiveType::Double=>{ifkey{quote!(conjure_object::DoubleKey)}else{quote!(f64)}}PrimitiveType::Safelong=>quote!(conjure_object::SafeLong),PrimitiveType::Binary=>quote!(conjure_object::Bytes),PrimitiveType::Any=>quote!(conjure_object::Any),PrimitiveType::Boolean=>quote!(bool),PrimitiveType::Uuid=>quote!(conjure_object::Uuid),PrimitiveType::Rid=>quote!(conjure_object::ResourceIdentifier),PrimitiveType::Bearertoken=>quote!(conjure_object::BearerToken),},Type::Optional(def)=>{letoption=self.option_ident(this_type);letitem=self.rust_type_inner(this_type,def.item_type(),key);quote!(#option<#item>)}Type::List(def)=>{letvec=self.vec_ident(this_type);letitem=self.rust_type_inner(this_type,def.item_type(),key);quote!(#vec<#item>)}Type::Set(def)=>{letitem=self.rust_type_inner(this_type,def.item_type(),true);quote!(std::collections::BTreeSet<#item>)}Type::Map(def)=>{letvalue=self.rust_type_inner(this_type,def.value_type(),key);letkey=self.rust_type_inner(this_type,def.key_type(),true);quote!(std::collections::BTreeMap<#key,#value>)}Type::Reference(def)=>self.type_path(this_type,def),Type::External(def)=>self.rust_type_inner(this_type,def.fallback(),key),}}" -/ ∧
    Gen.CodegenContextSrc.hashes.lookup "Context::boxed_rust_type" = some 6237657713517485795 /- "{matchdef{Type::Optional(def)=>{letoption=self.option_ident(this_type);letitem=self.boxed_rust_type(this_type,def.item_type());quote!(#option<#item>)}Type::Reference(def)=>self.ref_boxed_rust_type(this_type,def),Type::External(def)=>self.boxed_rust_type(this_type,def.fallback()),def=>self.rust_type(this_type,def),}}" -/ ∧
    Gen.CodegenContextSrc.hashes.lookup "Context::ref_boxed_rust_type" = some 15402356831597770747 /- "{letctx=&self.types[name];letneeds_box=match&ctx.def{TypeDefinition::Alias(def)=>self.needs_box(def.alias()),TypeDefinition::Enum(_)=>false,TypeDefinition::Object(_)=>match&self.types[this_type].def{TypeDefinition::Union(_)=>false,_=>true,},TypeDefinition::Union(_)=>true,};letunboxed=self.type_path(this_type,name);ifneeds_box{letbox_=self.box_ident(this_type);quote!(#box_<#unboxed>)}else{unboxed}}" -/ ∧
    Gen.CodegenObjectsSrc.hashes.lookup "fn generate" = some 12972639228190881497 /- "{letdocs=ctx.docs(def.docs());letname=ctx.type_name(def.type_name().name());letmuttype_attrs=vec![quote!(#[serde(crate=\"conjure_object::serde\")])];letmutderives=vec![\"Debug\",\"Clone\",\"conjure_object::serde::Serialize\",\"conjure_object::serde::Deserialize\",];ifdef.fields().iter().any(|v|ctx.has_double(v.type_())){derives.push(\"conjure_object::private::Educe\");type_attrs.push(quote!(#[educe(PartialEq,Eq,PartialOrd,Ord,Hash)]));}else{derives.push(\"PartialEq\");derives.push(\"Eq\");derives.push(\"PartialOrd\");derives.push(\"Ord\");derives.push(\"Hash\");}ifdef.fields().iter().all(|v|ctx.is_copy(v.type_())){derives.push(\"Copy\");}letderives=derives.iter().map(|s|s.parse::<TokenStream>().unwrap());type_attrs.insert(0,quote!(#[derive(#(#derives),*)]));letfield_attrs=def.fields().iter().map(|s|{letbuilder_attr=field_builder_attr(ctx,def,s);letserde_attr=serde_field_attr(ctx,def,s);leteduce_attr=ifctx.is_double(s.type_()){quote!{#[educe(PartialEq(method(conjure_object::private::DoubleOps::eq)),Ord(method(conjure_object::private::DoubleOps::cmp)),Hash(method(conjure_object::private::DoubleOps::hash)),)]}}else{quote!()};quote!{#builder_attr#serde_attr#educe_attr}});letfields=def.fields().iter().map(|f|ctx.field_name(f.field_name()));letboxed_types=&def.fields().iter().map(|s|ctx.boxed_rust_type(def.type_name(),s.type_())).collect::<Vec<_>>();letconstructor=generate_constructor(ctx,def);letaccessors=def.fields().iter().map(|s|{letdocs=ctx.docs(s.docs());letdeprecated=ctx.deprecated(s.deprecated());letname=ctx.field_name(s.field_name());letret_type=ctx.borrowed_rust_type(def.type_name(),s.type_());letborrow=ctx.borrow_rust_type(quote!(self.#name),s.type_());quote!(#docs#deprecated#[inline]pubfn#name(&self)->#ret_type{#borrow})});quote!{#docs#(#type_attrs)*#[conjure_object::private::staged_builder::staged_builder]#[builder(crate=conjure_object::private::staged_builder,update,inline,)]pubstruct#name{#(#field_attrs#fields:#boxed_types,)*}impl#name{#constructor#(#accessors)*}}}" -/ ∧
    Gen.CodegenUnionsSrc.hashes.lookup "fn generate_enum" = some 8449921773393489155 /- "{letname=ctx.type_name(def.type_name().name());letmuttype_attrs=vec![];letmutderives=vec![\"Debug\",\"Clone\"];ifdef.union_().iter().any(|v|ctx.has_double(v.type_())){derives.push(\"conjure_object::private::Educe\");type_attrs.push(quote!(#[educe(PartialEq,Eq,PartialOrd,Ord,Hash)]));}else{derives.push(\"PartialEq\");derives.push(\"Eq\");derives.push(\"PartialOrd\");derives.push(\"Ord\");derives.push(\"Hash\");}letderives=derives.iter().map(|s|s.parse::<TokenStream>().unwrap());type_attrs.insert(0,quote!(#[derive(#(#derives),*)]));letdocs=def.union_().iter().map(|f|ctx.docs(f.docs()));letdeprecated=def.union_().iter().map(|f|ctx.deprecated(f.deprecated()));letvariants=&variants(ctx,def);lettypes=&def.union_().iter().map(|f|{letattr=ifctx.is_double(f.type_()){quote!{#[educe(PartialEq(method(conjure_object::private::DoubleOps::eq)),Ord(method(conjure_object::private::DoubleOps::cmp)),Hash(method(conjure_object::private::DoubleOps::hash)),)]}}else{quote!()};letty=ctx.boxed_rust_type(def.type_name(),f.type_());quote!(#attr#ty)}).collect::<Vec<_>>();letunknown=unknown(ctx,def);letunknown_variant=ifctx.exhaustive(){quote!()}else{quote!{#[doc=\"Anunknownvariant.\"]#unknown(#unknown),}};quote!{#(#type_attrs)*pubenum#name{#(#docs#deprecated#variants(#types),)*#unknown_variant}}}" -/ ∧
    Gen.CodegenAliasesSrc.hashes.lookup "fn generate" = some 9976687671691517758 /- "{letname=ctx.type_name(def.type_name().name());letalias=ctx.rust_type(def.type_name(),def.alias());letresult=ctx.result_ident(def.type_name());letdocs=ctx.docs(def.docs());letmuttype_attrs=vec![quote!(#[serde(crate=\"conjure_object::serde\",transparent)])];letmutfield_attrs=vec![];letmutderives=vec![\"Debug\",\"Clone\",\"conjure_object::serde::Deserialize\",\"conjure_object::serde::Serialize\",];ifctx.is_copy(def.alias()){derives.push(\"Copy\");}ifctx.is_double(def.alias()){derives.push(\"conjure_object::private::Educe\");type_attrs.push(quote!(#[educe(PartialEq,Eq,PartialOrd,Ord,Hash)]));field_attrs.push(quote!{#[educe(PartialEq(method(conjure_object::private::DoubleOps::eq)),Ord(method(conjure_object::private::DoubleOps::cmp)),Hash(method(conjure_object::private::DoubleOps::hash)),)]})}else{derives.push(\"PartialEq\");derives.push(\"Eq\");derives.push(\"PartialOrd\");derives.push(\"Ord\");derives.push(\"Hash\");}ifctx.is_default(def.alias()){derives.push(\"Default\");}letderives=derives.iter().map(|s|s.parse::<TokenStream>().unwrap());type_attrs.insert(0,quote!(#[derive(#(#derives),*)]));letdisplay=ifctx.is_display(def.alias()){quote!{implstd::fmt::Displayfor#name{fnfmt(&self,fmt:&mutstd::fmt::Formatter<'_>)->std::fmt::Result{std::fmt::Display::fmt(&self.0,fmt)}}}}else{quote!()};letplain=ifctx.is_plain(def.alias()){quote!{implconjure_object::Plainfor#name{fnfmt(&self,fmt:&mutstd::fmt::Formatter<'_>)->std::fmt::Result{conjure_object::Plain::fmt(&self.0,fmt)}}implconjure_object::FromPlainfor#name{typeErr=<#aliasasconjure_object::FromPlain>::Err;#[inline]fnfrom_plain(s:&str)->#result<#name,Self::Err>{conjure_object::FromPlain::from_plain(s).map(#name)}}}}else{quote!()};letfrom_iterator=matchctx.is_from_iter(def.type_name(),def.alias()){Some(item)=>quote!{implstd::iter::FromIterator<#item>for#name{fnfrom_iter<T>(iter:T)->SelfwhereT:std::iter::IntoIterator<Item=#item>,{#name(std::iter::FromIterator::from_iter(iter))}}},None=>quote!(),};letdealiased_type=ctx.rust_type(def.type_name(),ctx.dealiased_type(def.alias()));quote!{#docs#(#type_attrs)*pubstruct#name(#(#field_attrs)*pub#alias);#display#plain#from_iteratorimplstd::convert::From<#dealiased_type>for#name{#[inline]fnfrom(v:#dealiased_type)->Self{#name(std::convert::From::from(v))}}implstd::ops::Dereffor#name{typeTarget=#alias;#[inline]fnderef(&self)->&#alias{&self.0}}implstd::ops::DerefMutfor#name{#[inline]fnderef_mut(&mutself)->&mut#alias{&mutself.0}}}}" -/ := by decide +kernel

/-- **no generated type holds itself by value**: for every set of definitions without an alias cycle (a Conjure
compiler rule), however the types refer to each other — directly, through optionals, through aliases and aliases of
aliases, through imported types' fallbacks, objects inside unions and unions inside objects — following the "holds by
value" relation of the generated Rust types (a field or variant not wrapped in `Box`, the wrapped type of an alias;
collections keep their elements on the heap) never leads back to where it started.  So every generated struct and
enum has a finite size, which is what rustc demands of recursive definitions. -/
theorem C03_no_type_holds_itself (defs : Defs) (depth : Nat → Nat) (D : Nat) (wf : AliasWF defs depth D)
    (fuel : Nat) (hfuel : D < fuel) (n : Nat) : ¬ Holds defs fuel n n := by
  intro h
  have := holds_rank defs fuel depth D wf hfuel h
  omega

/-- with enough fuel (more than the longest alias chain) the boxing decision no longer depends on it: the model's
bounded recursion is the generator's unbounded one -/
theorem C03_boxing_fuel_irrelevant (defs : Defs) (depth : Nat → Nat) (D : Nat) (wf : AliasWF defs depth D)
    (n f g : Nat) (hf : D ≤ f) (hg : D ≤ g) : needsBoxN defs f n = needsBoxN defs g n :=
  needsBoxN_stable defs depth D wf (depth n) n rfl f g (by have := wf.bound n; omega) (by have := wf.bound n; omega)

/-- `Node { next: optional<Node>, alias: NodeAlias }`, `NodeAlias = optional<Node>`, `Tree = union { leaf: Leaf,
node: list<Tree>, maybe: optional<Tree> }`, `Leaf { t: optional<Tree> }`: the hypotheses hold and each object field
and union variant gets the box the generator gives it -/
def exDefs : Defs :=
  [.object [.optional (.ref 0), .ref 1], .alias (.optional (.ref 0)),
   .union [.ref 3, .coll, .optional (.ref 2)], .object [.optional (.ref 2)]]

example : AliasWF exDefs (fun _ => 0) 1 := by
  constructor
  · intro n; omega
  · intro n t hn m hm t' hm'
    match n, hn with
    | 0, hn => simp [exDefs] at hn
    | 1, hn =>
      simp [exDefs] at hn; subst hn
      simp [aliasRefs] at hm; subst hm
      simp [exDefs] at hm'
    | 2, hn => simp [exDefs] at hn
    | 3, hn => simp [exDefs] at hn
    | k + 4, hn => simp [exDefs] at hn

example : (exDefs.map (fun d => match d with
    | .object fs => fs.map (boxFlags exDefs 5 false)
    | .union fs => fs.map (boxFlags exDefs 5 true)
    | _ => [])) = [[[true], [true]], [], [[false], [], [true]], [[true]]] := by decide
end Recursion

/-! #### doubles at every legal position -/
section Doubles
open ConjureVerif.RustType

/-- **whatever sits below a set item or a map key is totally ordered**: for every Conjure type, the Rust type the
generator writes (`rust_type_inner`, pinned in `gen_boxing_sources`) puts `DoubleKey` — never the unordered `f64` —
wherever a double occurs below a set item or a map key, through optionals, lists, the values of maps and the fallbacks
of imported types; so every `BTreeSet<T>` and `BTreeMap<K, _>` it names, at any depth, has the `Ord` it needs -/
theorem C03_set_items_and_keys_are_ordered (t : CTy) :
    usable (rustType false t) = true ∧ ordOk (rustType true t) = true :=
  ⟨usable_rustType false t, ordOk_key t⟩

/-- **each field is compared by something that exists**: a field the generator gives the `DoubleOps` methods
(`is_double`) has a Rust type they are implemented for; every other field has a Rust type with a total order, equality
and hash of its own — so the `Educe` / `derive` lines written for objects, unions and aliases compile whatever the
field types are -/
theorem C03_double_methods_fit (t : CTy) :
    (isDouble t = true → doubleOpsOk (rustType false t) = true) ∧
    (isDouble t = false → ordOk (rustType false t) = true) :=
  ⟨isDouble_true_ops t, isDouble_false_ord t⟩

/-- the functions that write a field's `#[builder(...)]` attribute -/
theorem gen_builder_sources :
    Gen.CodegenContextSrc.hashes.lookup "Context::builder_config" = some 9363333221388607104 /- "{matchdef{Type::Primitive(def)=>matchdef{PrimitiveType::String|PrimitiveType::Binary=>BuilderConfig::Into,PrimitiveType::Any=>BuilderConfig::Custom{type_:quote!(implconjure_object::serde::Serialize),convert:quote!(|v|conjure_object::Any::new(v).expect(\"valuefailedtoserialize\")),},_=>BuilderConfig::Normal,},Type::Optional(def)=>{ifself.needs_box(def.item_type()){letinto=self.into_ident(this_type);letoption=self.option_ident(this_type);letitem_type=self.rust_type(this_type,def.item_type());letbox_=self.box_ident(this_type);BuilderConfig::Custom{type_:quote!(impl#into<#option<#item_type>>),convert:quote!(|v|v.into().map(#box_::new)),}}else{BuilderConfig::Into}}Type::List(def)=>BuilderConfig::List{item:self.builder_item_config(this_type,def.item_type(),false),},Type::Set(def)=>BuilderConfig::Set{item:self.builder_item_config(this_type,def.item_type(),true),},Type::Map(def)=>BuilderConfig::Map{key:self.builder_item_config(this_type,def.key_type(),true),value:self.builder_item_config(this_type,def.value_type(),false),},Type::Reference(def)=>{ifself.ref_needs_box(def){letbox_=self.box_ident(this_type);BuilderConfig::Custom{type_:self.type_path(this_type,def),convert:quote!(#box_::new),}}else{BuilderConfig::Normal}}Type::External(def)=>self.builder_config(this_type,def.fallback()),}}" -/ ∧
    Gen.CodegenContextSrc.hashes.lookup "Context::builder_item_config" = some 14454168095124291473 /- "{matchdef{Type::Primitive(primitive)=>matchprimitive{PrimitiveType::String=>BuilderItemConfig::Into{type_:self.string_ident(this_type),},PrimitiveType::Binary=>BuilderItemConfig::Into{type_:quote!(conjure_object::Bytes),},PrimitiveType::Any=>BuilderItemConfig::Custom{type_:quote!(implconjure_object::serde::Serialize),convert:quote!(|v|conjure_object::Any::new(v).expect(\"valuefailedtoserialize\")),},_=>BuilderItemConfig::Normal{type_:self.rust_type_inner(this_type,def,key),},},Type::Optional(def)=>{letoption=self.option_ident(this_type);letitem_type=self.rust_type_inner(this_type,def.item_type(),key);BuilderItemConfig::Into{type_:quote!(#option<#item_type>),}}Type::List(def)=>{letinto_iterator=self.into_iterator_ident(this_type);letitem_type=self.rust_type_inner(this_type,def.item_type(),key);BuilderItemConfig::Custom{type_:quote!(impl#into_iterator<Item=#item_type>),convert:quote!(|v|v.into_iter().collect()),}}Type::Set(def)=>{letinto_iterator=self.into_iterator_ident(this_type);letitem_type=self.rust_type_inner(this_type,def.item_type(),true);BuilderItemConfig::Custom{type_:quote!(impl#into_iterator<Item=#item_type>),convert:quote!(|v|v.into_iter().collect()),}}Type::Map(def)=>{letinto_iterator=self.into_iterator_ident(this_type);letkey_type=self.rust_type_inner(this_type,def.key_type(),true);letvalue_type=self.rust_type_inner(this_type,def.value_type(),key);BuilderItemConfig::Custom{type_:quote!(impl#into_iterator<Item=(#key_type,#value_type)>),convert:quote!(|v|v.into_iter().collect()),}}Type::Reference(def)=>BuilderItemConfig::Normal{type_:self.type_path(this_type,def),},Type::External(def)=>self.builder_item_config(this_type,def.fallback(),key),}}" -/ ∧
    Gen.CodegenObjectsSrc.hashes.lookup "fn field_builder_attr" = some 6517229059603477348 /- "{letmutinner=matchctx.builder_config(def.type_name(),field.type_()){BuilderConfig::Normal=>quote!(),BuilderConfig::Into=>quote!(into),BuilderConfig::Custom{type_,convert}=>{quote!(custom(type=#type_,convert=#convert))}BuilderConfig::List{item}=>{letitem=builder_item_attr(item);quote!(list(item(#item)))}BuilderConfig::Set{item}=>{letitem=builder_item_attr(item);quote!(set(item(#item)))}BuilderConfig::Map{key,value}=>{letkey=builder_item_attr(key);letvalue=builder_item_attr(value);quote!(map(key(#key),value(#value)))}};if!ctx.is_required(field.type_()){inner=quote!(default,#inner);}ifinner.is_empty(){quote!()}else{quote!(#[builder(#inner)])}}" -/ ∧
    Gen.CodegenObjectsSrc.hashes.lookup "fn builder_item_attr" = some 7670467204189237290 /- "{matchconfig{BuilderItemConfig::Normal{type_}=>quote!(type=#type_),BuilderItemConfig::Into{type_}=>quote!(type=#type_,into),BuilderItemConfig::Custom{type_,convert}=>{quote!(custom(type=#type_,convert=#convert))}}}" -/ := by decide +kernel

/-- **what a collection field's setters take is what the field holds**: for every Conjure type, the element type the
staged builder's `push_` / `insert_` / `extend_` setters are declared with (`builder_config`, `builder_item_config`:
plain, `into`, `impl Serialize`, or an iterator that is collected) is the element type of the field's Rust type — in
value positions and in key positions (set items, map keys, and what lies below them) alike -/
theorem C03_builder_items_fit (t : CTy) :
    fieldFits (builderField t) (rustType false t) = true ∧
    (∀ key, fits (builderItem key t) (rustType key t) = true) :=
  ⟨builderField_fits t, fun key => builderItem_fits key t⟩

example : renderField (builderField (.set (.map (.prim .string) (.prim .double)))) = "set:Iter<(String,DoubleKey)>" := by
  decide +kernel

/-- the rule as it was before D15 was repaired fails exactly this: `set<map<string, double>>` -/
theorem C03_old_rule_witness :
    usable (rustTypeOld false (.set (.map (.prim .string) (.prim .double)))) = false := old_rule_unusable

example : render (rustType false (.set (.list (.map (.prim .string) (.optional (.prim .double)))))) =
    "BTreeSet<Vec<BTreeMap<String,Option<DoubleKey>>>>" := by decide +kernel
example : render (rustType false (.map (.prim .double) (.list (.prim .double)))) = "BTreeMap<DoubleKey,Vec<f64>>" := by
  decide +kernel
end Doubles

/-! #### non-vacuity -/
example : identName Gen.Keywords.escaped "type" = "type_" ∧ identName Gen.Keywords.escaped "field_name" = "field_name" := by
  decide +kernel

end ConjureVerif.C03
