import ConjureVerif.Model.Idents
/-
C03 — Code generation succeeds and its output compiles for every valid definition.

No Lean model can express rustc.  What is logic here is the identifier escaping — the only part of the statement
that is a closed-form rule ("Rust keywords used as field, argument, endpoint, variant or package names") — proved
for every name; everything else (type mapping, boxing, derives, paths, builder synthesis) is exercised, not proved:
seeded IR documents are generated and the emitted module trees compiled by rustc against the runtime crates.
-/
set_option linter.unusedSimpArgs false
namespace ConjureVerif.C03
open ConjureVerif ConjureVerif.Idents

/-! #### instantiation -/

/-- every strict or reserved keyword of editions 2018/2021 (other than `Self`, which snake_case cannot produce) is in
the list `ident_name` escapes -/
theorem gen_keywords_covered : Gen.Keywords.extractOk = true ∧
    (keywords.all (fun k => k == "Self" || Gen.Keywords.escaped.contains k)) = true := by decide +kernel

/-- no escaped name turns into another keyword by the escape itself -/
theorem gen_escape_leaves_keywords :
    (Gen.Keywords.escaped.all (fun e => !keywords.contains (e ++ "_"))) = true ∧
    (Gen.Keywords.typeEscaped.all (fun e => !keywords.contains (e ++ "_"))) = true := by decide +kernel

theorem gen_self_escaped : Gen.Keywords.typeEscaped.contains "Self" = true := by decide +kernel

/-! #### the rule, for every name -/

/-- **no field, argument, endpoint or module identifier the generator emits is a Rust keyword**, whatever the
Conjure name (given that snake_case output is never `Self`, which contains an upper-case letter) -/
theorem C03_ident_never_keyword (snake : String) (hs : snake ≠ "Self") :
    keywords.contains (identName Gen.Keywords.escaped snake) = false := by
  unfold identName
  by_cases h : Gen.Keywords.escaped.contains snake = true
  · rw [if_pos h]
    have := List.all_eq_true.mp gen_escape_leaves_keywords.1 snake (List.contains_iff_mem.mp h)
    simpa using this
  · rw [if_neg h]
    cases hk : keywords.contains snake with
    | false => rfl
    | true =>
      have := List.all_eq_true.mp gen_keywords_covered.2 snake (List.contains_iff_mem.mp hk)
      simp only [Bool.or_eq_true, beq_iff_eq] at this
      rcases this with h1 | h2
      · exact absurd h1 hs
      · exact absurd h2 h

/-- **no type identifier the generator emits is a keyword**: the only keyword that is an UpperCamelCase word is
`Self` (all others are lower-case) and it is escaped -/
theorem C03_type_ident_never_self (camel : String) :
    typeName Gen.Keywords.typeEscaped camel ≠ "Self" := by
  unfold typeName
  by_cases h : Gen.Keywords.typeEscaped.contains camel = true
  · rw [if_pos h]
    intro he
    have := List.all_eq_true.mp gen_escape_leaves_keywords.2 camel (List.contains_iff_mem.mp h)
    rw [he] at this
    revert this; decide +kernel
  · rw [if_neg h]
    intro he
    rw [he] at h
    exact h gen_self_escaped

/-! #### non-vacuity -/
example : identName Gen.Keywords.escaped "type" = "type_" ∧ identName Gen.Keywords.escaped "field_name" = "field_name" := by
  decide +kernel

end ConjureVerif.C03
