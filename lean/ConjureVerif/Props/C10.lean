import ConjureVerif.Model.EnumUnion
import ConjureVerif.Lemmas.AnyRoundTrip
import ConjureVerif.Gen.ObjPrivateSrc
/-
C10 — Unknown enum values and union variants survive a round trip unless exhaustive.
-/
set_option linter.unusedSimpArgs false
namespace ConjureVerif.C10
open ConjureVerif ConjureVerif.Data ConjureVerif.Wrap ConjureVerif.AnyM ConjureVerif.EnumUnion

/-! #### instantiation: `Variant`'s validator and the union field helpers (conjure-object/src/private.rs) -/
theorem gen_variant_validator :
    Gen.ObjPrivateSrc.hashes.lookup "fn valid_enum_variant" = some 5806532344999375027 /- "{ifs.is_empty(){returnfalse;}s.as_bytes().iter().all(|b|matches!(b,b'A'..=b'Z'|b'0'..=b'9'|b'_'))}" -/ ∧
    Gen.ObjPrivateSrc.hashes.lookup "FromStr for Variant::from_str" = some 12159738611131720343 /- "{ifvalid_enum_variant(s){Ok(Variant(s.into()))}else{Err(ParseEnumError::new())}}" -/ ∧
    Gen.ObjPrivateSrc.hashes.lookup "de::Visitor<'de> for UnionFieldVisitor<T>::visit_str" = some 12420967154820704809 /- "{matchvalue{\"type\"=>Ok(UnionField_::Type),value=>T::deserialize(value.into_deserializer()).map(UnionField_::Value),}}" -/ ∧
    Gen.ObjPrivateSrc.hashes.lookup "de::Visitor<'_> for UnionTypeFieldVisitor::visit_str" = some 10153877095946106681 /- "{matchvalue{\"type\"=>Ok(UnionTypeField_),value=>Err(E::invalid_value(de::Unexpected::Str(value),&self)),}}" -/ := by
  decide +kernel

/-! #### enums -/

theorem indexOf_go_get (values : List (List Nat)) (s : List Nat) (k i : Nat)
    (h : indexOf.go s values k = some i) : k ≤ i ∧ values[i - k]? = some s := by
  induction values generalizing k with
  | nil => simp [indexOf.go] at h
  | cons v vs ih =>
    simp only [indexOf.go] at h
    split at h
    · rename_i hv; cases h; subst hv; simp
    · obtain ⟨h1, h2⟩ := ih (k + 1) h
      refine ⟨by omega, ?_⟩
      have : i - k = (i - (k + 1)) + 1 := by omega
      rw [this]; simpa using h2

theorem indexOf_get (values : List (List Nat)) (s : List Nat) (i : Nat) (h : indexOf values s = some i) :
    values[i]? = some s := by
  have := (indexOf_go_get values s 0 i h).2; simpa using this

/-- **listed values are always themselves**, in both configurations, and re-serialize unchanged -/
theorem C10_enum_listed_never_unknown (exh : Bool) (values : List (List Nat)) (s : List Nat) (i : Nat)
    (h : indexOf values s = some i) :
    enumDe exh values (.str s) = .ok (.known i) ∧ enumSer values (.known i) = some (.str s) := by
  simp [enumDe, h, enumSer, indexOf_get values s i h]

/-- **unknown values survive** the default configuration: any well-formed unlisted name deserializes,
    exposes its name, and re-serializes to the same document -/
theorem C10_enum_unknown_roundtrip (values : List (List Nat)) (s : List Nat)
    (hn : indexOf values s = none) (hv : validVariant s = true) :
    enumDe false values (.str s) = .ok (.unknown s) ∧ enumSer values (.unknown s) = some (.str s) := by
  simp [enumDe, hn, hv, enumSer]

/-- **exhaustive rejects** exactly those documents -/
theorem C10_enum_exhaustive_rejects (values : List (List Nat)) (s : List Nat) (hn : indexOf values s = none) :
    enumDe true values (.str s) = .error .other := by
  simp [enumDe, hn]

/-- malformed names are rejected in both configurations -/
theorem C10_enum_malformed_rejected (exh : Bool) (values : List (List Nat)) (s : List Nat)
    (hn : indexOf values s = none) (hv : validVariant s = false) :
    enumDe exh values (.str s) = .error .other := by
  cases exh <;> simp [enumDe, hn, hv]

/-! #### unions -/

def listed (vs : List UVariant) (t : List Nat) : Option Nat := indexOf (vs.map (·.name)) t

theorem variantOf_listed (exh : Bool) (vs : List UVariant) (t : List Nat) (i : Nat) (h : listed vs t = some i) :
    variantOf exh vs t = some (.known i) := by
  unfold listed at h; simp [variantOf, h]

theorem variantOf_unlisted (vs : List UVariant) (t : List Nat) (h : listed vs t = none) :
    variantOf false vs t = some (.unknown t) ∧ variantOf true vs t = none := by
  unfold listed at h; simp [variantOf, h]

def typeFirst (t : List Nat) (p : Doc) : Doc := .obj (.cons (.text typeKey) (.str t) (.cons (.text t) p .nil))
def valueFirst (t : List Nat) (p : Doc) : Doc := .obj (.cons (.text t) p (.cons (.text typeKey) (.str t) .nil))

/-- **unknown variants survive** the default configuration, in either member order, with any JSON
    payload: the variant keeps its name, carries the payload losslessly, and re-serializes to the
    canonical (type-first) document -/
theorem C10_union_unknown_roundtrip (fmt : Fmt) (side : Side) (vs : List UVariant) (t : List Nat) (p : Doc) (a : Any)
    (hn : listed vs t = none) (ht : t ≠ typeKey) (hc : JsonClean p) (hd : DistinctKeys p) (ha : ofJson p = some a) :
    unionDe fmt side false vs (typeFirst t p) = .ok (.unknown t a) ∧
    unionDe fmt side false vs (valueFirst t p) = .ok (.unknown t a) ∧
    unionSer .json vs (.unknown t a) = some (typeFirst t p) := by
  have hv := (variantOf_unlisted vs t hn).1
  refine ⟨?_, ?_, ?_⟩
  · simp [typeFirst, unionDe, hv, payloadOf, ha]
  · simp [valueFirst, unionDe, ht, hv, payloadOf, ha]
  · simp [unionSer, typeFirst, jsonAnyJson p hc hd a ha]

/-- **listed variants are never unknown**: whatever the payload, a document naming a listed variant
    either fails or yields that variant -/
theorem C10_union_listed_never_unknown (fmt : Fmt) (side : Side) (exh : Bool) (vs : List UVariant) (t : List Nat)
    (p : Doc) (i : Nat) (hl : listed vs t = some i) (ht : t ≠ typeKey) (r : UVal) :
    (unionDe fmt side exh vs (typeFirst t p) = .ok r → ∃ v, r = .known i v) ∧
    (unionDe fmt side exh vs (valueFirst t p) = .ok r → ∃ v, r = .known i v) := by
  have hv := variantOf_listed exh vs t i hl
  constructor
  · intro h
    simp only [typeFirst, unionDe, hv, if_true] at h
    simp only [payloadOf] at h
    cases hg : vs[i]? with
    | none => simp [hg] at h
    | some uv =>
      simp only [hg] at h
      cases hd : de fmt side uv.ty p with
      | error e => simp [hd] at h
      | ok v => simp [hd] at h; exact ⟨v, h.symm⟩
  · intro h
    simp only [valueFirst, unionDe, ht, if_false, hv] at h
    simp only [payloadOf] at h
    cases hg : vs[i]? with
    | none => simp [hg] at h
    | some uv =>
      simp only [hg] at h
      cases hd : de fmt side uv.ty p with
      | error e => simp [hd] at h
      | ok v => simp [hd] at h; exact ⟨v, h.symm⟩

/-- **exhaustive rejects** documents naming an unlisted variant, in either order -/
theorem C10_union_exhaustive_rejects (fmt : Fmt) (side : Side) (vs : List UVariant) (t : List Nat) (p : Doc)
    (hn : listed vs t = none) (ht : t ≠ typeKey) :
    unionDe fmt side true vs (typeFirst t p) = .error .other ∧
    unionDe fmt side true vs (valueFirst t p) = .error .other := by
  have hv := (variantOf_unlisted vs t hn).2
  constructor
  · simp [typeFirst, unionDe, hv]
  · simp [valueFirst, unionDe, ht, hv]

/-- **listed variants behave identically** in both configurations -/
theorem C10_listed_same_both_modes (fmt : Fmt) (side : Side) (vs : List UVariant) (t : List Nat) (p : Doc) (i : Nat)
    (hl : listed vs t = some i) (ht : t ≠ typeKey) :
    unionDe fmt side true vs (typeFirst t p) = unionDe fmt side false vs (typeFirst t p) ∧
    unionDe fmt side true vs (valueFirst t p) = unionDe fmt side false vs (valueFirst t p) := by
  have h1 := variantOf_listed true vs t i hl
  have h2 := variantOf_listed false vs t i hl
  constructor
  · simp [typeFirst, unionDe, h1, h2]
  · simp [valueFirst, unionDe, ht, h1, h2]

/-- a listed variant with a valid payload deserializes to it and re-serializes canonically -/
theorem C10_union_listed_roundtrip (fmt : Fmt) (side : Side) (exh : Bool) (vs : List UVariant) (i : Nat) (uv : UVariant)
    (v : Val) (hg : vs[i]? = some uv) (hl : listed vs uv.name = some i) (ht : uv.name ≠ typeKey)
    (hty : HasTy uv.ty v) :
    ∃ d, unionSer fmt vs (.known i v) = some (typeFirst uv.name d) ∧
      unionDe fmt side exh vs (typeFirst uv.name d) = .ok (.known i v) ∧
      unionDe fmt side exh vs (valueFirst uv.name d) = .ok (.known i v) := by
  obtain ⟨d, h1, h2⟩ := rt fmt side hty
  have hv := variantOf_listed exh vs uv.name i hl
  refine ⟨d, by simp [unionSer, hg, h1, typeFirst], ?_, ?_⟩
  · simp [typeFirst, unionDe, hv, payloadOf, hg, h2]
  · simp [valueFirst, unionDe, ht, hv, payloadOf, hg, h2]

/-! #### non-vacuity -/
example : validVariant [66, 79, 71, 85, 83, 95, 49] = true ∧ validVariant [98] = false ∧ validVariant [] = false := by
  decide
example : listed [{ name := [97], ty := .f64 }] [102, 111, 111] = none ∧ ([102, 111, 111] : List Nat) ≠ typeKey := by
  decide
example : JsonClean (.obj (.cons (.text [97]) (.arr (.cons (.int 1) (.cons (.str txtNaN) (.cons .null .nil)))) .nil)) := by
  simp [JsonClean, JsonCleanM, JsonCleanL]

end ConjureVerif.C10
