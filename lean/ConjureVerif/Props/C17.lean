import ConjureVerif.Model.ErrorM
import ConjureVerif.Lemmas.AnyRoundTrip
import ConjureVerif.Gen.ErrorSerSrc
import ConjureVerif.Gen.ErrorSrc
/-
C17 — Errors encode faithfully; their parameters are partitioned by declared safety.
-/
set_option linter.unusedSimpArgs false
namespace ConjureVerif.C17
open ConjureVerif ConjureVerif.Data ConjureVerif.Wrap ConjureVerif.AnyM ConjureVerif.ErrorM

/-! #### instantiation -/

/-- **status codes**: the table in the source is the specification's -/
theorem C17_status : Gen.StatusCodes.extractOk = true ∧ Gen.StatusCodes.table =
    [("PermissionDenied", 403), ("InvalidArgument", 400), ("NotFound", 404), ("Conflict", 409),
     ("RequestEntityTooLarge", 413), ("FailedPrecondition", 500), ("Internal", 500), ("Timeout", 500),
     ("CustomClient", 400), ("CustomServer", 500)] := by decide +kernel

/-- `StringVisitor` implements exactly bool / i64 / u64 / f64 / str / string, each by `to_string` -/
theorem gen_string_visitor :
    (Gen.ErrorSerSrc.bodies.filter (fun p => p.1.startsWith "Visitor<'_> for StringVisitor::visit_")).map (·.1) =
      ["Visitor<'_> for StringVisitor::visit_bool", "Visitor<'_> for StringVisitor::visit_i64",
       "Visitor<'_> for StringVisitor::visit_u64", "Visitor<'_> for StringVisitor::visit_f64",
       "Visitor<'_> for StringVisitor::visit_str", "Visitor<'_> for StringVisitor::visit_string"] ∧
    Gen.ErrorSerSrc.bodies.lookup "SerializeStruct for StructSerializer::serialize_field" =
      some "{letkey=key.to_string();letvalue=Any::new(value)?;self.entries.push((key,value));Ok(())}" := by
  decide +kernel

/-- `service_inner` partitions by `safe_args.contains`; `propagated_service` passes no safe args -/
theorem gen_service_inner :
    Gen.ErrorSrc.hashes.lookup "Error::service_inner" = some 6288364651253037149 /- "{letmutsafe_params=HashMap::new();letmutunsafe_params=HashMap::new();for(key,value)inerror.parameters(){letkey=Cow::Owned(key.clone());letvalue=Any::new(value).unwrap();ifsafe_args.contains(&&*key){safe_params.insert(key,value);}else{unsafe_params.insert(key,value);}}letmuterror=Error::new(cause,cause_safe,ErrorKind::Service(error));error.0.safe_params=safe_params;error.0.unsafe_params=unsafe_params;error}" -/ ∧
    Gen.ErrorSrc.hashes.lookup "Error::propagated_service" = some 13725418174180237583 /- "{Error::service_inner(cause.into(),false,error,&[])}" -/ ∧
    Gen.ErrorSrc.hashes.lookup "Error::propagated_service_safe" = some 733109740369306220 /- "{Error::service_inner(cause.into(),true,error,&[])}" -/ ∧
    Gen.ErrorSrc.hashes.lookup "Error::service" = some 718359896676361145 /- "{Error::service_inner(cause.into(),false,crate::encode(&error_type),error_type.safe_args(),)}" -/ := by
  decide +kernel

/-! #### the property -/

/-- the statement's rule: which parameter values have a string entry, and which text -/
def paramText : Ty → Val → Option PText
  | .bool, .bool b => some (.text (if b then txtTrue else txtFalse))
  | .int w, .int n => if w.bits ≤ 64 then some (.text (Dec.showInt n)) else none
  | .f64, .f64 d => some (.dbl d)
  | .f32, .f32 d => some (.dbl d)
  | .str, .str s => some (.text s)
  | .uuid, .uuid bs => some (.text (Plain.uuidText bs))
  | .option t, .some v => paramText t v
  | .newtype t, .newtype v => paramText t v
  | .enum vs, .variant i .unit =>
    (match vs.get? i with
      | some (name, .unit, _) => some (.text name)
      | _ => none)
  | _, _ => none      -- lists, maps, objects, binary, absent optionals, unit: omitted

def specParams : Fields → FVals → List (List Nat × PText)
  | .cons name t fs, .cons v vs =>
    (match paramText t v with
      | some txt => (name, txt) :: specParams fs vs
      | none => specParams fs vs)
  | _, _ => []

theorem stringSeed_ofVal : ∀ {t : Ty} {v : Val}, HasTy t v → ∃ a, ofVal t v = some a ∧ stringSeed a = paramText t v
  | _, _, .bool b => ⟨_, rfl, rfl⟩
  | _, _, .int w n _ => ⟨_, rfl, rfl⟩
  | _, _, .f64 d => ⟨_, rfl, rfl⟩
  | _, _, .f32 d => ⟨_, rfl, rfl⟩
  | _, _, .str s => ⟨_, rfl, rfl⟩
  | _, _, .bytes bs _ => ⟨_, rfl, rfl⟩
  | _, _, .unit => ⟨_, rfl, rfl⟩
  | _, _, .uuid bs _ _ => ⟨_, rfl, rfl⟩
  | _, _, .none t => ⟨_, rfl, rfl⟩
  | _, _, .some t v hv _ => by
    obtain ⟨a, h1, h2⟩ := stringSeed_ofVal hv
    exact ⟨a, by simp [ofVal, h1], by simp [paramText, h2]⟩
  | _, _, .seq t vs hl => by
    obtain ⟨as, h1, _⟩ := anyRtL hl
    exact ⟨.seq as, by simp [ofVal, h1], by simp [stringSeed, paramText]⟩
  | _, _, .tuple ts vs ht => by
    obtain ⟨as, h1, _⟩ := anyRtT ht
    exact ⟨.seq as, by simp [ofVal, h1], by simp [stringSeed, paramText]⟩
  | _, _, .map kt vt es he => by
    obtain ⟨as, h1, _⟩ := anyRtE he
    exact ⟨.map as, by simp [ofVal, h1], by simp [stringSeed, paramText]⟩
  | _, _, .unitStruct => ⟨_, rfl, rfl⟩
  | _, _, .newtype t v hv => by
    obtain ⟨a, h1, h2⟩ := stringSeed_ofVal hv
    exact ⟨a, by simp [ofVal, h1], by simp [paramText, h2]⟩
  | _, _, .tupleStruct ts vs ht => by
    obtain ⟨as, h1, _⟩ := anyRtT ht
    exact ⟨.seq as, by simp [ofVal, h1], by simp [stringSeed, paramText]⟩
  | _, _, .struct fs vs hnd hf => by
    obtain ⟨a, h1, _⟩ := anyRt (HasTy.struct fs vs hnd hf)
    simp only [ofVal, Option.map_eq_some_iff] at h1
    obtain ⟨es, h2, rfl⟩ := h1
    exact ⟨.map es, by simp [ofVal, h2], by simp [stringSeed, paramText]⟩
  | _, _, .unitVariant vs i name pty hg _ => ⟨.str name, by simp [ofVal, hg], by simp [stringSeed, paramText, hg]⟩
  | _, _, .newtypeVariant vs i name pty p hg hd hp => by
    obtain ⟨a, h1, _⟩ := anyRt (HasTy.newtypeVariant vs i name pty p hg hd hp)
    refine ⟨a, h1, ?_⟩
    simp only [ofVal, hg, Option.map_eq_some_iff] at h1
    obtain ⟨x, _, rfl⟩ := h1
    cases p <;> simp [stringSeed, paramText, hg]
  | _, _, .tupleVariant vs i name ts ps hg hd ht => by
    obtain ⟨a, h1, _⟩ := anyRt (HasTy.tupleVariant vs i name ts ps hg hd ht)
    refine ⟨a, h1, ?_⟩
    simp only [ofVal, hg, Option.map_eq_some_iff] at h1
    obtain ⟨x, _, rfl⟩ := h1
    simp [stringSeed, paramText]
  | _, _, .structVariant vs i name fs ps hg hd hnd hf => by
    obtain ⟨a, h1, _⟩ := anyRt (HasTy.structVariant vs i name fs ps hg hd hnd hf)
    refine ⟨a, h1, ?_⟩
    simp only [ofVal, hg, Option.map_eq_some_iff] at h1
    obtain ⟨x, _, rfl⟩ := h1
    simp [stringSeed, paramText]

/-- **entries**: `encode` yields exactly one string entry per scalar-valued parameter, in declaration
    order, with the stated text — strings, uuids and enum values verbatim, booleans and integers in
    decimal text, doubles as their number; none for lists, maps, objects, binary, absent optionals -/
theorem C17_entries : ∀ {fs : Fields} {vs : FVals}, HasTyF fs vs → encodeParams fs vs = some (specParams fs vs)
  | _, _, .nil => rfl
  | _, _, .cons n t fs v vs hv hf => by
    obtain ⟨a, h1, h2⟩ := stringSeed_ofVal hv
    simp only [encodeParams, h1, C17_entries hf, specParams, h2]
    cases paramText t v <;> rfl

/-- **partition**: every encoded parameter is in exactly one of the two sets, and it is in the safe
    set exactly when the error type lists it as safe -/
theorem C17_partition (safeArgs : List (List Nat)) (params : List (List Nat × PText)) (p : List Nat × PText)
    (hp : p ∈ params) :
    (p ∈ (partition safeArgs params).1 ∧ p ∉ (partition safeArgs params).2 ∧ p.1 ∈ safeArgs) ∨
    (p ∉ (partition safeArgs params).1 ∧ p ∈ (partition safeArgs params).2 ∧ p.1 ∉ safeArgs) := by
  unfold partition
  by_cases h : p.1 ∈ safeArgs
  · left; simp [hp, h]
  · right; simp [hp, h]

/-- nothing is lost or invented by the partition -/
theorem C17_partition_complete (safeArgs : List (List Nat)) (params : List (List Nat × PText)) (p : List Nat × PText) :
    p ∈ params ↔ (p ∈ (partition safeArgs params).1 ∨ p ∈ (partition safeArgs params).2) := by
  unfold partition
  by_cases h : p.1 ∈ safeArgs <;> simp [h]

/-- **propagated errors**: with no safe arguments, every parameter is unsafe -/
theorem C17_propagated_all_unsafe (params : List (List Nat × PText)) :
    (partition [] params).1 = [] ∧ (partition [] params).2 = params := by
  unfold partition; simp

theorem mem_insertBy {α : Type} (lt : α → α → Bool) (x y : α) (l : List α) :
    y ∈ Hex.insertBy lt x l ↔ y = x ∨ y ∈ l := by
  induction l with
  | nil => simp [Hex.insertBy]
  | cons z zs ih =>
    unfold Hex.insertBy
    split
    · simp
    · simp only [List.mem_cons, ih]
      constructor
      · rintro (h | h | h)
        · exact .inr (.inl h)
        · exact .inl h
        · exact .inr (.inr h)
      · rintro (h | h | h)
        · exact .inr (.inl h)
        · exact .inl h
        · exact .inr (.inr h)

/-- **generated safe_args**: the generated list has exactly the declared safe argument names -/
theorem C17_generated_safe_args (declared : List (List Nat)) (n : List Nat) :
    n ∈ genSafeArgs declared ↔ n ∈ declared := by
  unfold genSafeArgs Hex.sortBy
  induction declared with
  | nil => simp
  | cons x xs ih => simp only [List.foldr_cons, mem_insertBy, ih, List.mem_cons]

/-! #### the serializable form survives a JSON round trip (C01 on its type) -/
def errorCodeTy : Ty :=
  .enum (.cons [80] .unit .unit (.cons [73] .unit .unit .nil))   -- two representative codes

def serializableErrorTy : Ty :=
  .struct (.cons [99] errorCodeTy (.cons [110] .str (.cons [105] .uuid (.cons [112] (.map .str .str) .nil))))

theorem C17_json_roundtrip (side : Side) (v : Val) (h : HasTy serializableErrorTy v) :
    ∃ d, ser .json serializableErrorTy v = some d ∧ de .json side serializableErrorTy d = .ok v :=
  rt .json side h

/-! #### non-vacuity -/
example : specParams (.cons [97] .str (.cons [98] (.seq .str) (.cons [99] (.option .bool) .nil)))
    (.cons (.str [120]) (.cons (.seq .nil) (.cons (.some (.bool true)) .nil))) =
    [([97], .text [120]), ([99], .text txtTrue)] := by decide

end ConjureVerif.C17
