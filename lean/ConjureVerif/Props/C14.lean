import ConjureVerif.Lemmas.DoubleOps
import ConjureVerif.Gen.ObjPrivateSrc
import ConjureVerif.Gen.DoubleKeySrc
/-
C14 — Generated types with doubles have a lawful total order, equality and hash.

The model (Model/DoubleOps.lean) mirrors `conjure_object::private::DoubleOps` one `impl` per combinator:
`f64Ops` (OrderedFloat: NaN = NaN, NaN greatest, -0 = +0 — the abstraction D = nan | num k with k the
order-preserving integer image of the bits is computed by the harness from the *real* f64), `optOps`, `vecOps`,
`mapOps` (a BTreeMap iterated in key order, entries compared as `(k, DoubleOpsWrapper(v))` tuples), and what
`#[educe(PartialEq, Eq, PartialOrd, Ord, Hash)]` derives for generated objects (`prodOps`, fields in order) and
unions (`sumOps`, variants in order, discriminant hashed first).  `keyOps` is any leaf with an ordinary derived order.
-/
set_option linter.unusedSimpArgs false
namespace ConjureVerif.C14
open ConjureVerif ConjureVerif.DoubleOps

/-! #### instantiation: the source text of every `DoubleOps` impl and of `DoubleKey` -/
theorem gen_double_ops_source :
    Gen.ObjPrivateSrc.hashes.lookup "DoubleOps for f64::cmp" = some 3317416179049685566 /- "{OrderedFloat(*self).cmp(&OrderedFloat(*other))}" -/ ∧
    Gen.ObjPrivateSrc.hashes.lookup "DoubleOps for f64::eq" = some 5109566910599504853 /- "{OrderedFloat(*self)==OrderedFloat(*other)}" -/ ∧
    Gen.ObjPrivateSrc.hashes.lookup "DoubleOps for f64::hash" = some 889762740993273617 /- "{OrderedFloat(*self).hash(hasher)}" -/ ∧
    Gen.ObjPrivateSrc.hashes.lookup "DoubleOps for Option<T>::cmp" = some 17150339065665689753 /- "{match(self,other){(Some(a),Some(b))=>a.cmp(b),(Some(_),None)=>Ordering::Greater,(None,Some(_))=>Ordering::Less,(None,None)=>Ordering::Equal,}}" -/ ∧
    Gen.ObjPrivateSrc.hashes.lookup "DoubleOps for Option<T>::eq" = some 121393038219773530 /- "{match(self,other){(Some(a),Some(b))=>a.eq(b),(Some(_),None)|(None,Some(_))=>false,(None,None)=>true,}}" -/ ∧
    Gen.ObjPrivateSrc.hashes.lookup "DoubleOps for Option<T>::hash" = some 2486034766904643322 /- "{mem::discriminant(self).hash(hasher);ifletSome(v)=self{v.hash(hasher);}}" -/ ∧
    Gen.ObjPrivateSrc.hashes.lookup "DoubleOps for Vec<T>::cmp" = some 9841606281591576733 /- "{letl=usize::min(self.len(),other.len());letlhs=&self[..l];letrhs=&other[..l];foriin0..l{matchlhs[i].cmp(&rhs[i]){Ordering::Equal=>{}v=>returnv,}}self.len().cmp(&other.len())}" -/ ∧
    Gen.ObjPrivateSrc.hashes.lookup "DoubleOps for Vec<T>::eq" = some 1580944185000726326 /- "{ifself.len()!=other.len(){returnfalse;}foriin0..self.len(){if!self[i].eq(&other[i]){returnfalse;}}true}" -/ ∧
    Gen.ObjPrivateSrc.hashes.lookup "DoubleOps for Vec<T>::hash" = some 18400198134951643287 /- "{self.len().hash(hasher);forvinself{v.hash(hasher);}}" -/ ∧
    Gen.ObjPrivateSrc.hashes.lookup "DoubleOps for BTreeMap<K,V>::cmp" = some 444387017552035516 /- "{self.iter().map(|(k,v)|(k,DoubleOpsWrapper(v))).cmp(other.iter().map(|(k,v)|(k,DoubleOpsWrapper(v))))}" -/ ∧
    Gen.ObjPrivateSrc.hashes.lookup "DoubleOps for BTreeMap<K,V>::eq" = some 4668468042148120976 /- "{self.iter().map(|(k,v)|(k,DoubleOpsWrapper(v))).eq(other.iter().map(|(k,v)|(k,DoubleOpsWrapper(v))))}" -/ ∧
    Gen.ObjPrivateSrc.hashes.lookup "DoubleOps for BTreeMap<K,V>::hash" = some 12991002785900783232 /- "{self.len().hash(hasher);for(k,v)inself{(k,DoubleOpsWrapper(v)).hash(hasher);}}" -/ ∧
    Gen.ObjPrivateSrc.hashes.lookup "PartialEq for DoubleOpsWrapper<'_,T>::eq" = some 9686786530693945152 /- "{self.0.eq(other.0)}" -/ ∧
    Gen.ObjPrivateSrc.hashes.lookup "PartialOrd for DoubleOpsWrapper<'_,T>::partial_cmp" = some 12065986277121618337 /- "{Some(self.cmp(other))}" -/ ∧
    Gen.ObjPrivateSrc.hashes.lookup "Ord for DoubleOpsWrapper<'_,T>::cmp" = some 1144844009117513414 /- "{self.0.cmp(other.0)}" -/ ∧
    Gen.ObjPrivateSrc.hashes.lookup "Hash for DoubleOpsWrapper<'_,T>::hash" = some 408432958307591732 /- "{self.0.hash(state);}" -/ := by
  decide +kernel

theorem gen_double_key_source :
    Gen.DoubleKeySrc.hashes.lookup "PartialOrd for DoubleKey::partial_cmp" = some 12065986277121618337 /- "{Some(self.cmp(other))}" -/ ∧
    Gen.DoubleKeySrc.hashes.lookup "PartialEq for DoubleKey::eq" = some 1839315297590627093 /- "{OrderedFloat(self.0)==OrderedFloat(other.0)}" -/ ∧
    Gen.DoubleKeySrc.hashes.lookup "Ord for DoubleKey::cmp" = some 14281156873136647414 /- "{OrderedFloat(self.0).cmp(&OrderedFloat(other.0))}" -/ ∧
    Gen.DoubleKeySrc.hashes.lookup "Hash for DoubleKey::hash" = some 16633384470721426037 /- "{OrderedFloat(self.0).hash(state)}" -/ := by
  decide +kernel

/-! #### the main theorem: every shape built from doubles, ordinary keys, optionals, lists, maps, objects
and unions — nested to any depth — has lawful operations -/
theorem C14_lawful : ∀ s : Shape, Lawful s.ops
  | .f => lawful_f64
  | .k => lawful_key
  | .opt s => lawful_opt (C14_lawful s)
  | .vec s => lawful_vec (C14_lawful s)
  | .map s => lawful_map (C14_lawful s)
  | .prod a b => lawful_prod (C14_lawful a) (C14_lawful b)
  | .sum a b => lawful_sum (C14_lawful a) (C14_lawful b)

/-- equality is reflexive at every shape — in particular NaN equals NaN at any position -/
theorem C14_eq_refl (s : Shape) (a : s.carrier) : s.ops.eq a a = true := (C14_lawful s).eq_refl a

/-- comparison returns Equal exactly for equal values -/
theorem C14_cmp_eq_iff (s : Shape) (a b : s.carrier) : s.ops.cmp a b = .eq ↔ s.ops.eq a b = true :=
  (C14_lawful s).eq_iff a b

/-- antisymmetry: swapping the arguments swaps the answer -/
theorem C14_antisymm (s : Shape) (a b : s.carrier) : s.ops.cmp b a = (s.ops.cmp a b).swap :=
  (C14_lawful s).cmp_swap a b

/-- transitivity of `<` and of `≤` -/
theorem C14_lt_trans (s : Shape) (a b c : s.carrier) (h1 : s.ops.cmp a b = .lt) (h2 : s.ops.cmp b c = .lt) :
    s.ops.cmp a c = .lt := (C14_lawful s).lt_trans a b c h1 h2

theorem C14_le_trans (s : Shape) (a b c : s.carrier) (h1 : s.ops.cmp a b ≠ .gt) (h2 : s.ops.cmp b c ≠ .gt) :
    s.ops.cmp a c ≠ .gt := (C14_lawful s).le_trans a b c h1 h2

/-- equal values compare alike against everything (equality is a congruence for the order) -/
theorem C14_eq_congr (s : Shape) (a b c : s.carrier) (h : s.ops.eq a b = true) : s.ops.cmp a c = s.ops.cmp b c :=
  (C14_lawful s).eq_congr a b c (((C14_lawful s).eq_iff a b).mpr h)

/-- equality is symmetric and transitive -/
theorem C14_eq_symm (s : Shape) (a b : s.carrier) (h : s.ops.eq a b = true) : s.ops.eq b a = true := by
  have L := C14_lawful s
  rw [← L.eq_iff] at h ⊢
  rw [L.cmp_swap a b, h]; rfl

theorem C14_eq_trans (s : Shape) (a b c : s.carrier) (h1 : s.ops.eq a b = true) (h2 : s.ops.eq b c = true) :
    s.ops.eq a c = true := by
  have L := C14_lawful s
  rw [← L.eq_iff] at h1 h2 ⊢
  rw [L.eq_congr a b c h1]; exact h2

/-- equal values hash equally: the word sequences fed to *any* `Hasher` coincide -/
theorem C14_hash_eq (s : Shape) (a b : s.carrier) (h : s.ops.eq a b = true) : s.ops.hash a = s.ops.hash b :=
  (C14_lawful s).hash_eq a b h

/-- NaN is the greatest double and equals itself; -0 and +0 (both image 0) are the same value by construction -/
theorem C14_nan_greatest (x : D) : f64Ops.cmp x .nan ≠ .gt ∧ f64Ops.eq .nan .nan = true ∧
    (∀ k, f64Ops.cmp (.num k) .nan = .lt) := by
  refine ⟨?_, rfl, fun _ => rfl⟩
  cases x <;> simp [f64Ops]

/-- empty vs absent optional and prefix-related lists are ordered, never "equal" -/
theorem C14_none_lt_some (s : Shape) (a : s.carrier) : (optOps s.ops).cmp none (some a) = .lt ∧
    (optOps s.ops).eq none (some a) = false := ⟨rfl, rfl⟩

theorem C14_prefix_lt (s : Shape) (l : List s.carrier) (x : s.carrier) (r : List s.carrier) :
    (vecOps s.ops).cmp l (l ++ x :: r) = .lt := by
  induction l with
  | nil => rfl
  | cons y ys ih => simp only [vecOps, List.cons_append, vecCmp, (C14_lawful s).cmp_refl]; exact ih

/-! #### consequence: a value inserted into a set / used as a map key is always found again -/

/-- the value just inserted is found, whatever the set held before -/
theorem C14_inserted_is_found (s : Shape) (set : List s.carrier) (x : s.carrier) :
    sfind s.ops x (sins s.ops x set) = true := sfind_sins_self (C14_lawful s) x set

/-- and so is every *equal* value (a NaN with another payload, -0 for +0) -/
theorem C14_equal_is_found (s : Shape) (set : List s.carrier) (x x' : s.carrier) (h : s.ops.eq x x' = true) :
    sfind s.ops x' (sins s.ops x set) = true := by
  rw [← sfind_congr (C14_lawful s) x x' h]; exact sfind_sins_self (C14_lawful s) x set

/-- later insertions never hide an element that was found before -/
theorem C14_insert_keeps_found (s : Shape) (set : List s.carrier) (hs : Sorted s.ops set) (x z : s.carrier)
    (h : sfind s.ops z set = true) : sfind s.ops z (sins s.ops x set) = true :=
  sfind_sins_other (C14_lawful s) x z set hs h

/-- every element of any insertion sequence is found in the resulting set, and the set stays strictly sorted -/
theorem C14_all_found (s : Shape) (l : List s.carrier) (z : s.carrier) (hz : z ∈ l) :
    sfind s.ops z (buildSet s.ops l) = true :=
  foldl_sins_finds (C14_lawful s) z l [] (by simp [Sorted]) hz

theorem C14_set_sorted (s : Shape) (l : List s.carrier) : Sorted s.ops (buildSet s.ops l) :=
  foldl_sins_sorted (C14_lawful s) l [] (by simp [Sorted])

/-! #### non-vacuity: concrete values with NaN, ±0, absent/empty and prefixes -/
example : (Shape.vec (.opt .f)).ops.eq [some .nan, none] [some .nan, none] = true := by decide
example : (Shape.vec .f).ops.cmp [.num 1] [.num 1, .nan] = .lt := by decide
example : (Shape.prod .f (.opt .f)).ops.cmp (.nan, none) (.nan, some (.num 0)) = .lt := by decide
example : (Shape.map .f).ops.hash [(1, .nan)] = [.len 1, .key 1, .dbl .nan] := by decide
example : sfind (Shape.f).ops .nan (buildSet (Shape.f).ops [.num 3, .nan, .num (-2), .nan]) = true := by decide
example : buildSet f64Ops [.num 3, .nan, .num (-2), .nan] = [.num (-2), .num 3, .nan] := by decide

end ConjureVerif.C14
