import ConjureVerif.Lemmas.LogSafety
import ConjureVerif.Gen.CodegenContextSrc
/-
C08 — An argument is generated safe-to-log exactly when all it can hold is safe.

`SpecSafe` (Lemmas/LogSafety) is the declarative rule: a named type is safe iff every definition
reachable from it through *undeclared* references is, by itself, safe — i.e. every declared
annotation on the way is `safe`, no primitive / `any` / bearer token / external type is left undeclared,
and no union is reached.  It mentions neither evaluation order nor a cache.
-/
set_option linter.unusedSimpArgs false
namespace ConjureVerif.C08
open ConjureVerif ConjureVerif.LogSafety

/-- a type expression is safe: its non-reference content is, and every named type it mentions is -/
def SpecSafeTy (defs : List Def) (ty : Ty) : Prop :=
  (tyParts ty).1 = true ∧ ∀ c ∈ (tyParts ty).2, SpecSafe defs c

/-- the rule for an argument: an explicit declaration wins (both ways); then the legacy marker or
    tag; otherwise the type decides -/
def ArgSpec (defs : List Def) (a : Arg) : Prop :=
  match a.safety with
  | some b => b = true
  | none => a.legacySafe = true ∨ SpecSafeTy defs a.ty

def ArgInRange (defs : List Def) (a : Arg) : Prop := ∀ c ∈ (tyParts a.ty).2, c < defs.length

/-- the generator's log-safety code this model transcribes (conjure-codegen/src/context.rs): an explicit `safety`
wins, then the legacy tag `safe` or the marker `com.palantir.logsafe.Safe` (that package *and* that name), then the
type; references are answered through the per-type cache with the provisional value for types in progress, and only
outermost results are kept -/
theorem gen_log_safety_sources :
    Gen.CodegenContextSrc.hashes.lookup "Context::is_safe_arg" = some 15728673171295917919 /- "{ifletSome(log_safety)=arg.safety(){return*log_safety==LogSafety::Safe;}ifself.is_legacy_safe_arg(arg){returntrue;}self.type_log_safety(arg.type_())==Some(LogSafety::Safe)}" -/ ∧
    Gen.CodegenContextSrc.hashes.lookup "Context::is_legacy_safe_arg" = some 15400573452224657344 /- "{arg.tags().iter().any(|s|s==\"safe\")||arg.markers().iter().any(|a|self.is_legacy_safe_marker(a))}" -/ ∧
    Gen.CodegenContextSrc.hashes.lookup "Context::is_legacy_safe_marker" = some 6288601637347088960 /- "{matchty{Type::External(def)=>{letname=def.external_reference();name.package()==\"com.palantir.logsafe\"&&name.name()==\"Safe\"}_=>false,}}" -/ ∧
    Gen.CodegenContextSrc.hashes.lookup "Context::type_log_safety" = some 2249949754606802379 /- "{matchty{Type::Primitive(primitive)=>self.primitive_log_safety(primitive),Type::Optional(optional)=>self.type_log_safety(optional.item_type()),Type::List(list)=>self.type_log_safety(list.item_type()),Type::Set(set)=>self.type_log_safety(set.item_type()),Type::Map(map)=>self.combine_safety(self.type_log_safety(map.key_type()),self.type_log_safety(map.value_type()),),Type::Reference(def)=>self.type_log_safety_ref(def),Type::External(_)=>None,}}" -/ ∧
    Gen.CodegenContextSrc.hashes.lookup "Context::primitive_log_safety" = some 16586713137089024308 /- "{matchprimitive{PrimitiveType::Bearertoken=>Some(LogSafety::DoNotLog),_=>None,}}" -/ ∧
    Gen.CodegenContextSrc.hashes.lookup "Context::type_log_safety_ref" = some 2408916342373956172 /- "{letctx=&self.types[name];match&*ctx.log_safety.borrow(){CachedLogSafety::Computed(safety)=>returnsafety.clone(),CachedLogSafety::InProgress=>returnSome(LogSafety::Safe),CachedLogSafety::Uncomputed=>{}}*ctx.log_safety.borrow_mut()=CachedLogSafety::InProgress;letdepth=self.log_safety_depth.get();self.log_safety_depth.set(depth+1);letsafety=match&ctx.def{TypeDefinition::Alias(alias)=>alias.safety().cloned().or_else(||self.type_log_safety(alias.alias())),TypeDefinition::Enum(_)=>Some(LogSafety::Safe),TypeDefinition::Object(object)=>object.fields().iter().map(|f|{f.safety().cloned().or_else(||self.type_log_safety(f.type_()))}).try_fold(LogSafety::Safe,|a,b|self.combine_safety(Some(a),b)),TypeDefinition::Union(union_)=>union_.union_().iter().map(|f|{f.safety().cloned().or_else(||self.type_log_safety(f.type_()))}).fold(None,|a,b|self.combine_safety(a,b)),};self.log_safety_depth.set(depth);*ctx.log_safety.borrow_mut()=ifdepth==0{CachedLogSafety::Computed(safety.clone())}else{CachedLogSafety::Uncomputed};safety}" -/ ∧
    Gen.CodegenContextSrc.hashes.lookup "Context::combine_safety" = some 15411564170362202506 /- "{match(a,b){(Some(LogSafety::DoNotLog),_)|(_,Some(LogSafety::DoNotLog))=>{Some(LogSafety::DoNotLog)}(Some(LogSafety::Unsafe),_)|(_,Some(LogSafety::Unsafe))=>Some(LogSafety::Unsafe),(Some(LogSafety::Safe),Some(LogSafety::Safe))=>Some(LogSafety::Safe),(Some(LogSafety::Safe),None)|(None,Some(LogSafety::Safe))|(None,None)=>None,}}" -/ := by
  decide +kernel

/-- the rules for the building blocks, as the statement lists them -/
theorem C08_rules :
    tyParts .prim = (false, []) ∧ tyParts .ext = (false, []) ∧
    (∀ t, tyParts (.opt t) = tyParts t) ∧ (∀ t, tyParts (.list t) = tyParts t) ∧
    (∀ t, tyParts (.set t) = tyParts t) ∧
    nodeOf .enum = (true, []) ∧ (∀ vs, (nodeOf (.union vs)).1 = false) ∧
    (∀ t, memberParts (some true, t) = (true, [])) ∧ (∀ t, memberParts (some false, t) = (false, [])) := by
  refine ⟨rfl, rfl, fun _ => rfl, fun _ => rfl, fun _ => rfl, rfl, fun _ => rfl, fun _ => rfl, fun _ => rfl⟩

/-- **one argument**: whatever correct cache the generator has accumulated, `is_safe_arg` answers by
    the rule and leaves a correct cache -/
theorem C08_arg_iff (defs : List Def) (hv : Valid defs) (memo : Memo) (hm : MemoOK defs memo)
    (a : Arg) (hr : ArgInRange defs a) :
    MemoOK defs (isSafeArg defs memo a).1 ∧ ((isSafeArg defs memo a).2 = true ↔ ArgSpec defs a) := by
  unfold isSafeArg ArgSpec
  cases hs : a.safety with
  | some b => exact ⟨hm, Iff.rfl⟩
  | none =>
    simp only
    cases hl : a.legacySafe with
    | true => simp [hm]
    | false =>
      simp only [Bool.false_eq_true, if_false, false_or]
      have := queryRefs_spec defs hv (tyParts a.ty).2 memo hm hr
      unfold queryTy SpecSafeTy
      simp only
      refine ⟨this.1, ?_⟩
      simp only [Bool.and_eq_true, this.2]

/-- the flags produced for a list of arguments match the rule, one by one -/
inductive AllSpec (defs : List Def) : List Bool → List Arg → Prop
  | nil : AllSpec defs [] []
  | cons (b a bs as) : (b = true ↔ ArgSpec defs a) → AllSpec defs bs as → AllSpec defs (b :: bs) (a :: as)

/-- **any history**: for every sequence of arguments met in any order, starting from any correct
    cache, each flag is the rule's answer — the memoised recursion never returns a stale or
    provisional value -/
theorem C08_any_history (defs : List Def) (hv : Valid defs) :
    ∀ (args : List Arg) (memo : Memo), MemoOK defs memo → (∀ a ∈ args, ArgInRange defs a) →
      AllSpec defs (runArgs defs memo args) args := by
  intro args
  induction args with
  | nil => intro _ _ _; exact .nil
  | cons a as ih =>
    intro memo hm hr
    have h1 := C08_arg_iff defs hv memo hm a (hr a List.mem_cons_self)
    simp only [runArgs]
    exact .cons _ _ _ _ h1.2 (ih _ h1.1 (fun x hx => hr x (List.mem_cons_of_mem _ hx)))

/-- **order independence**: the flag of an argument does not depend on what was evaluated before it -/
theorem C08_order_independent (defs : List Def) (hv : Valid defs) (m1 m2 : Memo)
    (h1 : MemoOK defs m1) (h2 : MemoOK defs m2) (a : Arg) (hr : ArgInRange defs a) :
    (isSafeArg defs m1 a).2 = (isSafeArg defs m2 a).2 := by
  have e1 := (C08_arg_iff defs hv m1 h1 a hr).2
  have e2 := (C08_arg_iff defs hv m2 h2 a hr).2
  cases hb1 : (isSafeArg defs m1 a).2 <;> cases hb2 : (isSafeArg defs m2 a).2 <;> simp_all

theorem memoOK_nil (defs : List Def) : MemoOK defs [] := by intro p hp; cases hp

/-- **recursive types**: a type on a cycle is safe only if everything reachable from it is -/
theorem C08_recursive (defs : List Def) (t u : Nat) (h : SpecSafe defs t) (hr : Reach defs t u) :
    SpecSafe defs u := fun w hw => h w (hr.trans hw)

/-! #### the 2-cycle of the recorded defect: A{b: optional<B>, x: string}, B{a: optional<A>, y: safe string}.
Neither is safe (A holds an undeclared string, and B reaches A), in either query order. -/
def cycleDefs : List Def :=
  [.object [(none, .opt (.ref 1)), (none, .prim)], .object [(none, .opt (.ref 0)), (some true, .prim)]]

example : Valid cycleDefs := by
  intro t c hc
  match t with
  | 0 => simp [kids, nodeAt, cycleDefs, nodeOf, membersParts, memberParts, tyParts] at hc; subst hc; decide
  | 1 => simp [kids, nodeAt, cycleDefs, nodeOf, membersParts, memberParts, tyParts] at hc; subst hc; decide
  | n + 2 => simp [kids, nodeAt, cycleDefs] at hc

example : runArgs cycleDefs [] [⟨none, false, .ref 0⟩, ⟨none, false, .ref 1⟩] = [false, false] ∧
    runArgs cycleDefs [] [⟨none, false, .ref 1⟩, ⟨none, false, .ref 0⟩] = [false, false] := by decide

/-- an all-safe self-recursive type stays safe -/
example : runArgs [.object [(none, .opt (.ref 0)), (some true, .prim)]] [] [⟨none, false, .list (.ref 0)⟩] = [true] := by
  decide

end ConjureVerif.C08
