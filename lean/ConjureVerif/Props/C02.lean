import ConjureVerif.Model.Wire
import ConjureVerif.Lemmas.WireIdem
import ConjureVerif.Lemmas.Base64Canon
import ConjureVerif.Gen.CodegenObjectsSrc
import ConjureVerif.Gen.CodegenContextSrc
import ConjureVerif.Gen.CodegenUnionsSrc
import ConjureVerif.Gen.CodegenAliasesSrc
import ConjureVerif.Gen.CodegenEnumsSrc
/-
C02 — Generated types read and write the Conjure wire format for every definition.

`Wire.canon` is the wire specification transcribed independently of the generator (Model/Wire.lean): for any set of
definitions, configuration and type it maps a JSON document to the canonical re-serialization of the value it
denotes or rejects it.  The theorems below are the statement's clauses, proved of `canon` for *all* definitions and
documents; that the generated code computes `canon` is established by correspondence on compiled generated code
(the generator's per-field decisions and the derive macros are executed, not modelled).
-/
set_option linter.unusedSimpArgs false
namespace ConjureVerif.C02
open ConjureVerif ConjureVerif.Data ConjureVerif.Wire

/-! #### instantiation: the generator functions that decide rename / skip / default, union and enum (de)serializers -/
theorem gen_codegen_sources :
    Gen.CodegenObjectsSrc.hashes.lookup "fn serde_field_attr" = some 3015309196110844389 ∧
    Gen.CodegenContextSrc.hashes.lookup "Context::is_required" = some 14450435835762555992 ∧
    Gen.CodegenContextSrc.hashes.lookup "Context::ref_is_required" = some 6851855165001962476 ∧
    Gen.CodegenContextSrc.hashes.lookup "Context::is_empty_method" = some 10405084132195873772 ∧
    Gen.CodegenContextSrc.hashes.lookup "Context::is_empty_method_ref" = some 14899645592744463219 ∧
    Gen.CodegenUnionsSrc.hashes.lookup "fn generate_serialize" = some 8845667541932951564 ∧
    Gen.CodegenUnionsSrc.hashes.lookup "fn generate_deserialize" = some 1747443018369392234 ∧
    Gen.CodegenUnionsSrc.hashes.lookup "fn generate_variant" = some 6930639856905482540 ∧
    Gen.CodegenUnionsSrc.hashes.lookup "fn generate_unknown" = some 18391003750277147104 ∧
    Gen.CodegenAliasesSrc.hashes.lookup "fn generate" = some 9976687671691517758 ∧
    Gen.CodegenEnumsSrc.hashes.lookup "fn generate_enum" = some 17245761102995989051 ∧
    Gen.CodegenEnumsSrc.hashes.lookup "fn generate_unknown" = some 3862382788308395337 := by
  decide +kernel

/-! #### aliases are transparent -/
theorem C02_alias_transparent (defs : Defs) (cfg : Cfg) (fuel n : Nat) (t : CTy) (d : Doc)
    (h : defs[n]? = some (.alias t)) :
    canon defs cfg (fuel + 1) (.ref n) d = canon defs cfg fuel t d := by
  simp [canon, h]

/-- and whether a field may be absent is decided through aliases of aliases -/
theorem C02_shape_through_alias (defs : Defs) (fuel n : Nat) (t : CTy) (h : defs[n]? = some (.alias t)) :
    shape defs (fuel + 1) (.ref n) = shape defs fuel t := by
  simp [shape, h]

/-! #### primitives in their specified encoding -/
theorem C02_integer_range (n : Int) : primOk .integer (.int n) = true ↔ -2147483648 ≤ n ∧ n ≤ 2147483647 := by
  simp [primOk, i32Int]

theorem C02_safelong_range (n : Int) :
    primOk .safelong (.int n) = true ↔ -9007199254740991 ≤ n ∧ n ≤ 9007199254740991 := by
  simp [primOk, safeInt]

/-- a binary field accepts exactly the canonical padded Base64 strings: `s` is accepted iff it is the text the
    encoder writes for some byte string (so wrong padding, a foreign alphabet or non-zero trailing bits reject) -/
theorem C02_binary_accepts_exactly_canonical (s : List Nat) :
    primOk .binary (.str s) = true ↔ ∃ bs : List Nat, (∀ b ∈ bs, b < 256) ∧ Base64.encode bs = s := by
  simp only [primOk, Option.isSome_iff_exists]
  constructor
  · rintro ⟨bs, h⟩
    exact ⟨bs, (Base64.encode_decode s bs h).2, (Base64.encode_decode s bs h).1⟩
  · rintro ⟨bs, hb, rfl⟩
    exact ⟨bs, Base64.decode_encode bs hb⟩

example : primOk .binary (.str [65, 81, 73, 61]) = true ∧ primOk .binary (.str [65, 81, 74, 61]) = false ∧
    primOk .binary (.str [65, 81, 73]) = false := by decide

/-- a different JSON kind where a primitive is required is rejected -/
theorem C02_prim_wrong_kind :
    primOk .string (.int 1) = false ∧ primOk .string .null = false ∧ primOk .integer (.str [49]) = false ∧
    primOk .integer (.dbl (.fin 0)) = false ∧ primOk .boolean (.str [116, 114, 117, 101]) = false ∧
    primOk .double (.bool true) = false ∧ primOk .uuid (.int 0) = false ∧ primOk .binary (.arr .nil) = false ∧
    (∀ p, p ≠ Prim.any → primOk p (.obj .nil) = false) ∧ (∀ p, p ≠ Prim.any → primOk p (.arr .nil) = false) := by
  refine ⟨rfl, rfl, rfl, rfl, rfl, rfl, rfl, rfl, ?_, ?_⟩ <;> intro p hp <;> cases p <;> simp_all [primOk]

/-- a primitive in its specified encoding is its own canonical form, and nothing else of that type has one —
except a double written as an integer -/
theorem C02_prim_canonical (defs : Defs) (cfg : Cfg) (fuel : Nat) (p : Prim) (d : Doc)
    (h : ∀ n, ¬ (p = .double ∧ d = .int n)) :
    canon defs cfg (fuel + 1) (.prim p) d = if primOk p d then some d else none := by
  simp only [canon]
  unfold primCanon
  split
  · rename_i n; exact absurd ⟨rfl, rfl⟩ (h n)
  · rfl

/-- any JSON number is a double: one written as an integer (of magnitude below 2^53, where the conversion is exact)
is accepted and re-serialized as that double; the result is a fixed point -/
theorem C02_double_accepts_integers (defs : Defs) (cfg : Cfg) (fuel : Nat) (n : Int)
    (h : -9007199254740991 ≤ n ∧ n ≤ 9007199254740991) :
    canon defs cfg (fuel + 1) (.prim .double) (.int n) = some (.dbl (.fin (intBits n))) ∧
    canon defs cfg (fuel + 1) (.prim .double) (.dbl (.fin (intBits n))) = some (.dbl (.fin (intBits n))) := by
  have hs : safeInt n = true := by simp [safeInt, h]
  simp [canon, primCanon, hs, primOk]

/-- 3 is 0x4008000000000000, -3 is 0xC008000000000000, 0 is all zeros, 2^53 - 1 is 0x433FFFFFFFFFFFFF -/
example : intBits 3 = 0x4008000000000000 ∧ intBits (-3) = 0xC008000000000000 ∧ intBits 0 = 0 ∧ intBits 1 = 0x3FF0000000000000 ∧
    intBits 9007199254740991 = 0x433FFFFFFFFFFFFF ∧ intBits (-9007199254740991) = 0xC33FFFFFFFFFFFFF := by decide +kernel

/-! #### enums -/
theorem C02_enum (defs : Defs) (cfg : Cfg) (fuel n : Nat) (values : List Bytes) (s : Bytes)
    (h : defs[n]? = some (.enum values)) :
    canon defs cfg (fuel + 1) (.ref n) (.str s) =
      if values.contains s then some (.str s)
      else if !cfg.exhaustive && validVariant s then some (.str s) else none := by
  simp [canon, h]

/-- a malformed enum name is rejected in every configuration -/
theorem C02_enum_malformed (defs : Defs) (cfg : Cfg) (fuel n : Nat) (values : List Bytes) (s : Bytes)
    (h : defs[n]? = some (.enum values)) (hl : values.contains s = false) (hv : validVariant s = false) :
    canon defs cfg (fuel + 1) (.ref n) (.str s) = none := by
  have hm : s ∉ values := by simpa using hl
  rw [C02_enum defs cfg fuel n values s h]; simp [hm, hv]

/-! #### objects: one declared field -/

/-- a required field that is missing or `null` invalidates the document -/
theorem C02_required_missing_or_null (cfg : Cfg) (name : Bytes) (sub : Doc → Option Doc) :
    fieldPart cfg .required name none sub = none ∧ fieldPart cfg .required name (some .null) sub = none := ⟨rfl, rfl⟩

/-- an absent and a `null` optional are the same, and are omitted (written `null` only under
serialize-empty-collections, which the option's documentation extends to optionals) -/
theorem C02_optional_absent_eq_null (cfg : Cfg) (inner : CTy) (name : Bytes) (sub : Doc → Option Doc) :
    fieldPart cfg (.optional inner) name none sub = fieldPart cfg (.optional inner) name (some .null) sub ∧
    (cfg.serializeEmpty = false → fieldPart cfg (.optional inner) name none sub = some []) := by
  constructor
  · rfl
  · intro h; simp [fieldPart, h]

/-- an absent collection is the empty collection; empty collections are omitted unless serialize-empty-collections;
an explicit `null` is not a collection -/
theorem C02_collection_field (cfg : Cfg) (isMap : Bool) (name : Bytes) (sub : Doc → Option Doc)
    (hsub : sub (if isMap then Doc.obj .nil else Doc.arr .nil) = some (if isMap then Doc.obj .nil else Doc.arr .nil)) :
    (cfg.serializeEmpty = false → fieldPart cfg (.collection isMap) name none sub = some []) ∧
    (cfg.serializeEmpty = true → fieldPart cfg (.collection isMap) name none sub =
      some [(Key.text name, if isMap then Doc.obj .nil else Doc.arr .nil)]) ∧
    fieldPart cfg (.collection isMap) name (some .null) sub = none ∧
    (cfg.serializeEmpty = false →
      fieldPart cfg (.collection isMap) name (some (if isMap then Doc.obj .nil else Doc.arr .nil)) sub = some []) := by
  refine ⟨?_, ?_, rfl, ?_⟩
  · intro h; simp [fieldPart, h, hsub]
  · intro h; simp [fieldPart, h, hsub]
  · intro h; cases isMap <;> simp_all [fieldPart, isEmptyColl]

/-- a present field is written under its declared name with the canonical form of its value -/
theorem C02_field_rename (cfg : Cfg) (name : Bytes) (v v' : Doc) (sub : Doc → Option Doc) (hv : v ≠ .null)
    (hs : sub v = some v') : fieldPart cfg .required name (some v) sub = some [(Key.text name, v')] := by
  cases v <;> simp_all [fieldPart]

/-! #### unions -/

/-- **either member order**: `{"type": v, v: payload}` and `{v: payload, "type": v}` denote the same value -/
theorem C02_union_either_order (name : Bytes) (payload : Doc) (hn : Key.text name ≠ typeKey) :
    unionPick typeKey (.str name) (.text name) payload = some (name, payload) ∧
    unionPick (.text name) payload typeKey (.str name) = some (name, payload) := by
  constructor
  · simp [unionPick]
  · have : (Key.text name == typeKey) = false := by simpa using hn
    simp [unionPick, this]

/-- type and member disagree: rejected -/
theorem C02_union_disagree (name other : Bytes) (payload : Doc) (hne : other ≠ name) (ho : Key.text other ≠ typeKey) :
    unionPick typeKey (.str name) (.text other) payload = none ∧
    unionPick (.text other) payload typeKey (.str name) = none := by
  constructor
  · simp [unionPick, hne]
  · have : (Key.text other == typeKey) = false := by simpa using ho
    simp [unionPick, this, hne]

/-- `type` must be a string -/
theorem C02_union_type_not_string (k : Key) (v payload : Doc) (hv : ∀ s, v ≠ .str s) (_hk : k ≠ typeKey) :
    unionPick typeKey v k payload = none := by
  cases v <;> simp_all [unionPick]

/-- a union document has exactly two members -/
theorem C02_union_member_count (defs : Defs) (cfg : Cfg) (fuel n : Nat) (variants : List (Bytes × CTy))
    (h : defs[n]? = some (.union variants)) (ms : Members) (hl : (members ms).length ≠ 2) :
    canon defs cfg (fuel + 1) (.ref n) (.obj ms) = none := by
  simp only [canon, h]
  match hm : members ms with
  | [] => simp
  | [_] => simp
  | [_, _] => simp [hm] at hl
  | _ :: _ :: _ :: _ => simp

/-- the canonical union document is type-first, and a listed variant's payload is canonicalised by its type;
an unlisted variant survives unchanged unless the configuration is exhaustive -/
theorem C02_union_canonical (defs : Defs) (cfg : Cfg) (fuel n : Nat) (variants : List (Bytes × CTy))
    (h : defs[n]? = some (.union variants)) (name : Bytes) (payload : Doc) (hn : Key.text name ≠ typeKey) :
    canon defs cfg (fuel + 1) (.ref n) (.obj (.cons (.text name) payload (.cons typeKey (.str name) .nil))) =
      match variants.lookup name with
      | some t => (canon defs cfg fuel t payload).map
          (fun p' => .obj (.cons typeKey (.str name) (.cons (.text name) p' .nil)))
      | none => if cfg.exhaustive then none
          else some (.obj (.cons typeKey (.str name) (.cons (.text name) payload .nil))) := by
  simp only [canon, h, members]
  rw [(C02_union_either_order name payload hn).2]
  rfl

/-! #### the canonical form is canonical -/

/-- **re-serialization is stable**: for any definitions whose objects have distinct field names, any configuration
(client or server, exhaustive or not, with or without empty collections), any type — however deeply nested or
recursive — and any accepted document, the canonical form is itself accepted and is its own canonical form.
So what a generated type writes is read back to the same value and written identically (serialize ∘ deserialize
is the identity on its own output). -/
theorem C02_canonical_is_fixed_point (defs : Defs) (cfg : Cfg) (wf : DefsWF defs) (fuel : Nat) (t : CTy) (d d' : Doc)
    (h : canon defs cfg fuel t d = some d') : canon defs cfg fuel t d' = some d' :=
  canon_idempotent defs cfg wf fuel t d d' h

/-! #### lists, sets and maps reject other JSON kinds -/
theorem C02_collection_wrong_kind (defs : Defs) (cfg : Cfg) (fuel : Nat) (t k : CTy) :
    canon defs cfg (fuel + 1) (.list t) (.obj .nil) = none ∧ canon defs cfg (fuel + 1) (.list t) (.str []) = none ∧
    canon defs cfg (fuel + 1) (.set t) .null = none ∧ canon defs cfg (fuel + 1) (.map k t) (.arr .nil) = none := by
  simp [canon]

/-! #### non-vacuity: an object with a required, an optional and a collection field; a union in both orders -/
def exDefs : Defs := [
  .object [([97], .prim .integer), ([111], .optional (.prim .string)), ([108], .list (.prim .boolean))],
  .union [([118], .ref 0)],
  .alias (.ref 0)]
def exCfg : Cfg := { exhaustive := false, serializeEmpty := false, server := true }

example : DefsWF exDefs := by
  intro n fields h
  match n, h with
  | 0, h => simp [exDefs] at h; subst h; decide
  | 1, h => simp [exDefs] at h
  | 2, h => simp [exDefs] at h
  | n + 3, h => simp [exDefs] at h

example : (canon exDefs exCfg 20 (.ref 2) (.obj (.cons (.text [111]) .null (.cons (.text [97]) (.int 7) .nil)))).isSome = true := by
  decide +kernel
example : (canon exDefs exCfg 20 (.ref 0) (.obj (.cons (.text [111]) .null .nil))).isNone = true := by decide +kernel
example : (canon exDefs exCfg 20 (.ref 1)
    (.obj (.cons (.text [118]) (.obj (.cons (.text [97]) (.int 7) .nil)) (.cons typeKey (.str [118]) .nil)))).isSome = true := by
  decide +kernel
example : (canon exDefs exCfg 20 (.ref 1)
    (.obj (.cons (.text [118]) (.obj (.cons (.text [97]) (.int 7) .nil)) (.cons typeKey (.str [119]) .nil)))).isNone = true := by
  decide +kernel

end ConjureVerif.C02
