import ConjureVerif.Model.Token
import ConjureVerif.Model.Rid
import ConjureVerif.Lemmas.Uri
import ConjureVerif.Gen.Rid
/-
C16 — Bearer tokens and resource identifiers are validated exactly on every entry path.
-/
set_option linter.unusedSimpArgs false
namespace ConjureVerif.C16
open ConjureVerif ConjureVerif.Token ConjureVerif.Rid ConjureVerif.Uri

/-! ### bearer tokens -/

/-- the specification's character class `[A-Za-z0-9\-._~+/]` -/
def specChar (b : Nat) : Bool :=
  (65 ≤ b && b ≤ 90) || (97 ≤ b && b ≤ 122) || (48 ≤ b && b ≤ 57) ||
  b == 45 || b == 46 || b == 95 || b == 126 || b == 43 || b == 47

/-- `^[A-Za-z0-9\-._~+/]+=*$` -/
def TokenG (s : List Nat) : Prop :=
  ∃ body pad, s = body ++ pad ∧ body ≠ [] ∧ (∀ b ∈ body, specChar b = true) ∧ (∀ b ∈ pad, b = 61)

theorem gen_token_extract_ok : Gen.Token.extractOk = true := by decide
theorem gen_token_table_len : Gen.Token.validChars.length = 256 := by decide +kernel

/-- the 256-entry table is exactly the specification's class -/
theorem gen_token_table : ∀ b : Fin 256, validChar b.val = specChar b.val := by decide +kernel

theorem validChar_eq_specChar (b : Nat) : validChar b = specChar b := by
  by_cases h : b < 256
  · exact gen_token_table ⟨b, h⟩
  · have h1 : validChar b = false := by
      unfold validChar
      rw [List.getD_eq_getElem?_getD, List.getElem?_eq_none (by rw [gen_token_table_len]; omega)]; rfl
    have h2 : specChar b = false := by
      unfold specChar; simp only [Bool.or_eq_false_iff, Bool.and_eq_false_iff, decide_eq_false_iff_not, beq_eq_false_iff_ne]
      omega
    rw [h1, h2]

/-- the function bodies the model transcribes are the ones in the source -/
theorem gen_token_bodies :
    Gen.Token.isValidBody = "{letstripped=s.trim_end_matches('=');ifstripped.is_empty()||!stripped.as_bytes().iter().cloned().all(valid_char){returnfalse;}true}" ∧
    Gen.Token.validCharBody = "{VALID_CHARS[basusize]!=0}" ∧
    Gen.Token.fromStrBody = "{if!is_valid(s){returnErr(ParseError(()));}Ok(BearerToken(s.to_string()))}" ∧
    Gen.Token.deserializeBody = "{lets=String::deserialize(d)?;ifis_valid(&s){Ok(BearerToken(s))}else{Err(de::Error::invalid_value(Unexpected::Str(&s),&\"abearertoken\",))}}" ∧
    Gen.Token.newBody = "{s.parse()}" := ⟨rfl, rfl, rfl, rfl, rfl⟩

/-- a `BearerToken` is constructed only behind `is_valid` (in `from_str` and `deserialize`) -/
theorem gen_token_sites : Gen.Token.rawConstructionSites =
    ["FromStr<BearerToken>.from_str", "Deserialize<BearerToken>.deserialize"] := by decide

theorem of_mem_takeWhile (p : Nat → Bool) (l : List Nat) (b : Nat) (h : b ∈ l.takeWhile p) : p b = true := by
  induction l with
  | nil => simp at h
  | cons x xs ih =>
    simp only [List.takeWhile] at h
    split at h
    · rename_i hx
      rcases List.mem_cons.mp h with e | e
      · rw [e]; exact hx
      · exact ih e
    · simp at h

theorem dropWhile_pad (pad body : List Nat) (hp : ∀ b ∈ pad, b = 61) (hb : ∀ x, body.head? = some x → x ≠ 61) :
    (pad ++ body).dropWhile (· == 61) = body := by
  induction pad with
  | nil =>
    cases body with
    | nil => simp
    | cons x xs =>
      have := hb x (by simp)
      simp [List.dropWhile, this]
  | cons p ps ih =>
    have hp1 : p = 61 := hp p List.mem_cons_self
    subst hp1
    simpa [List.dropWhile] using ih (fun b hb' => hp b (List.mem_cons_of_mem _ hb'))

theorem specChar_ne_pad {b : Nat} (h : specChar b = true) : b ≠ 61 := by
  intro e; subst e; simp [specChar] at h

/-- **tokens**: accepted exactly when the string matches `^[A-Za-z0-9\-._~+/]+=*$` -/
theorem C16_token_iff (s : List Nat) : isValid s = true ↔ TokenG s := by
  constructor
  · intro h
    unfold isValid at h
    simp only [Bool.not_eq_true', Bool.or_eq_false_iff, Bool.not_eq_false'] at h
    obtain ⟨hne, hall⟩ := h
    refine ⟨stripPad s, (s.reverse.takeWhile (· == 61)).reverse, ?_, ?_, ?_, ?_⟩
    · unfold stripPad
      rw [← List.reverse_append, List.takeWhile_append_dropWhile, List.reverse_reverse]
    · intro e; simp [e] at hne
    · intro b hb
      rw [← validChar_eq_specChar]
      exact List.all_eq_true.mp hall b hb
    · intro b hb
      have := of_mem_takeWhile _ _ _ (List.mem_reverse.mp hb)
      simpa using this
  · rintro ⟨body, pad, rfl, hne, hbody, hpad⟩
    have hstrip : stripPad (body ++ pad) = body := by
      unfold stripPad
      rw [List.reverse_append, dropWhile_pad pad.reverse body.reverse
        (fun b hb => hpad b (List.mem_reverse.mp hb)), List.reverse_reverse]
      intro x hx
      have : x ∈ body := by
        have := List.mem_of_head? hx
        exact List.mem_reverse.mp this
      exact specChar_ne_pad (hbody x this)
    unfold isValid
    simp only [hstrip, Bool.not_eq_true', Bool.or_eq_false_iff, Bool.not_eq_false']
    refine ⟨by cases body <;> simp_all, ?_⟩
    apply List.all_eq_true.mpr
    intro b hb; rw [validChar_eq_specChar]; exact hbody b hb

/-! ### resource identifiers -/

theorem gen_rid_extract_ok : Gen.Rid.extractOk = true := by decide

/-- the regex in the source is the specification's grammar, group for group -/
theorem gen_rid_regex : Gen.Rid.regex =
    "^ri\\.([a-z][a-z0-9\\-]*)\\.((?:[a-z0-9][a-z0-9\\-]*)?)\\.([a-z][a-z0-9\\-]*)\\.([a-zA-Z0-9_\\-\\.]+)$" := rfl

/-- a `ResourceIdentifier` is constructed only in `from_str`, from the regex captures; `new` and
    `Deserialize` go through it; `from_components` pre-checks dots, formats and parses -/
theorem gen_rid_paths :
    Gen.Rid.rawConstructionSites = ["FromStr<ResourceIdentifier>.from_str"] ∧
    Gen.Rid.newBody = "{s.parse()}" ∧
    Gen.Rid.deserializeBody = "{lets=String::deserialize(d)?;ResourceIdentifier::new(&s).map_err(|_|de::Error::invalid_value(Unexpected::Str(&s),&\"aresourceidentifier\"))}" ∧
    Gen.Rid.fromComponentsBody = "{ifservice.contains('.')||instance.contains('.')||type_.contains('.'){returnErr(ParseError(()));}format!(\"ri.{}.{}.{}.{}\",service,instance,type_,locator).parse()}" ∧
    Gen.Rid.fromStrBody = "{letcaptures=matchPARSE_REGEX.captures(s){Some(captures)=>captures,None=>returnErr(ParseError(())),};Ok(ResourceIdentifier{rid:s.to_string(),service_end:captures.get(1).unwrap().end(),instance_end:captures.get(2).unwrap().end(),type_end:captures.get(3).unwrap().end(),})}" :=
  ⟨rfl, rfl, rfl, rfl, rfl⟩

/-- PLAIN decoding of both types is `FromStr`, PLAIN rendering of a rid is `Display` -/
theorem gen_plain_paths : "BearerToken" ∈ Gen.Rid.plainFromStrTypes ∧
    "ResourceIdentifier" ∈ Gen.Rid.plainFromStrTypes ∧ "ResourceIdentifier" ∈ Gen.Rid.plainDisplayTypes := by
  decide

/-- the grammar: `ri.<service>.<instance>.<type>.<locator>` with the four component classes -/
def RidG (s : List Nat) : Prop :=
  ∃ svc inst typ loc, s = render svc inst typ loc ∧
    svcOk svc = true ∧ instOk inst = true ∧ svcOk typ = true ∧ locOk loc = true

theorem tailChar_no_dot {b : Nat} (h : tailChar b = true) : b ≠ 46 := by
  intro e; subst e; simp [tailChar, lower, digit] at h

theorem svcOk_no_dot {x : List Nat} (h : svcOk x = true) : 46 ∉ x := by
  cases x with
  | nil => simp [svcOk] at h
  | cons b bs =>
    simp only [svcOk, Bool.and_eq_true, List.all_eq_true] at h
    intro hm
    rcases List.mem_cons.mp hm with e | e
    · rw [← e] at h; simp [lower] at h
    · exact tailChar_no_dot (h.2 46 e) rfl

theorem instOk_no_dot {x : List Nat} (h : instOk x = true) : 46 ∉ x := by
  cases x with
  | nil => simp
  | cons b bs =>
    simp only [instOk, Bool.and_eq_true, List.all_eq_true] at h
    intro hm
    rcases List.mem_cons.mp hm with e | e
    · rw [← e] at h; simp [lower, digit] at h
    · exact tailChar_no_dot (h.2 46 e) rfl

theorem joinDots_splitOn (x : List Nat) : joinDots (splitOn 46 x) = x := by
  induction x with
  | nil => simp [splitOn, joinDots]
  | cons b bs ih =>
    unfold splitOn
    split
    · rename_i hb; subst hb
      cases hs : splitOn 46 bs with
      | nil => exact absurd hs (splitOn_ne_nil 46 bs)
      | cons q ps => rw [hs] at ih; simp [joinDots, ih]
    · cases hs : splitOn 46 bs with
      | nil => exact absurd hs (splitOn_ne_nil 46 bs)
      | cons q ps =>
        rw [hs] at ih
        cases ps with
        | nil => simp [joinDots] at ih ⊢; exact ih
        | cons r rs => simp [joinDots] at ih ⊢; exact ih

theorem splitOn_render (svc inst typ loc : List Nat) (h1 : 46 ∉ svc) (h2 : 46 ∉ inst) (h3 : 46 ∉ typ) :
    splitOn 46 (render svc inst typ loc) = [114, 105] :: svc :: inst :: typ :: splitOn 46 loc := by
  have e : render svc inst typ loc = [114, 105] ++ 46 :: (svc ++ 46 :: (inst ++ 46 :: (typ ++ 46 :: loc))) := by
    simp [render]
  rw [e, splitOn_append 46 _ _ (by decide), splitOn_append 46 _ _ h1, splitOn_append 46 _ _ h2,
    splitOn_append 46 _ _ h3]

/-- parsing the rendering of valid components succeeds and returns exactly those components
    (so the split is unique and joining the components reproduces the string) -/
theorem C16_parse_render (svc inst typ loc : List Nat) (h1 : svcOk svc = true)
    (h2 : instOk inst = true) (h3 : svcOk typ = true) (h4 : locOk loc = true) :
    parse (render svc inst typ loc) =
      some { rid := render svc inst typ loc, service := svc, instance_ := inst, type_ := typ, locator := loc } := by
  unfold parse
  rw [splitOn_render _ _ _ _ (svcOk_no_dot h1) (instOk_no_dot h2) (svcOk_no_dot h3)]
  cases hs : splitOn 46 loc with
  | nil => exact absurd hs (splitOn_ne_nil 46 loc)
  | cons l ls =>
    have hj : joinDots (l :: ls) = loc := by rw [← hs]; exact joinDots_splitOn loc
    simp [hj, h1, h2, h3, h4]

/-- **resource identifiers**: accepted exactly when the string is in the grammar; the stored string
    is the input; the four components are valid and, joined with the prefix and separators,
    reproduce it -/
theorem parse_some_shape (s : List Nat) (p : Parsed) (h : parse s = some p) :
    ∃ svc inst typ l ls, splitOn 46 s = [114, 105] :: svc :: inst :: typ :: l :: ls ∧
      svcOk svc = true ∧ instOk inst = true ∧ svcOk typ = true ∧ locOk (joinDots (l :: ls)) = true := by
  unfold parse at h
  split at h
  · rename_i ri svc inst typ l ls hs
    simp only at h
    split at h
    · rename_i hc
      simp only [Bool.and_eq_true, beq_iff_eq] at hc
      obtain ⟨⟨⟨⟨hri, h1⟩, h2⟩, h3⟩, h4⟩ := hc
      exact ⟨svc, inst, typ, l, ls, by rw [hs, hri], h1, h2, h3, h4⟩
    · cases h
  · cases h

theorem C16_rid_iff (s : List Nat) : (parse s).isSome = true ↔ RidG s := by
  constructor
  · intro h
    cases hp : parse s with
    | none => simp [hp] at h
    | some p =>
      obtain ⟨svc, inst, typ, l, ls, hs, h1, h2, h3, h4⟩ := parse_some_shape s p hp
      refine ⟨svc, inst, typ, joinDots (l :: ls), ?_, h1, h2, h3, h4⟩
      have := joinDots_splitOn s
      rw [hs] at this
      rw [← this]; simp [joinDots, render]
  · rintro ⟨svc, inst, typ, loc, rfl, h1, h2, h3, h4⟩
    rw [C16_parse_render svc inst typ loc h1 h2 h3 h4]; rfl

theorem C16_rid_components (s : List Nat) (p : Parsed) (h : parse s = some p) :
    p.rid = s ∧ s = render p.service p.instance_ p.type_ p.locator ∧
    svcOk p.service = true ∧ instOk p.instance_ = true ∧ svcOk p.type_ = true ∧ locOk p.locator = true := by
  have hg : RidG s := (C16_rid_iff s).mp (by simp [h])
  obtain ⟨svc, inst, typ, loc, rfl, h1, h2, h3, h4⟩ := hg
  rw [C16_parse_render svc inst typ loc h1 h2 h3 h4] at h
  cases h
  exact ⟨rfl, rfl, h1, h2, h3, h4⟩

theorem locOk_of_parse {s : List Nat} {p : Parsed} (h : parse s = some p) : locOk p.locator = true :=
  (C16_rid_components s p h).2.2.2.2.2

/-- **construction from components** succeeds exactly when each component is individually valid,
    and then yields exactly those components -/
theorem C16_from_components_iff (svc inst typ loc : List Nat) :
    (fromComponents svc inst typ loc).isSome = true ↔
      (svcOk svc = true ∧ instOk inst = true ∧ svcOk typ = true ∧ locOk loc = true) := by
  constructor
  · intro h
    unfold fromComponents at h
    split at h
    · simp at h
    · rename_i hd
      simp only [Bool.or_eq_true, List.contains_iff_mem, not_or] at hd
      obtain ⟨⟨d1, d2⟩, d3⟩ := hd
      cases hp : parse (render svc inst typ loc) with
      | none => simp [hp] at h
      | some p =>
        obtain ⟨svc', inst', typ', l, ls, hs, h1, h2, h3, h4⟩ := parse_some_shape _ p hp
        rw [splitOn_render _ _ _ _ d1 d2 d3] at hs
        simp only [List.cons.injEq, true_and] at hs
        obtain ⟨e1, e2, e3, e4⟩ := hs
        subst e1 e2 e3
        have hj : joinDots (l :: ls) = loc := by rw [← e4]; exact joinDots_splitOn loc
        rw [hj] at h4
        exact ⟨h1, h2, h3, h4⟩
  · rintro ⟨h1, h2, h3, h4⟩
    unfold fromComponents
    have d1 := svcOk_no_dot h1
    have d2 := instOk_no_dot h2
    have d3 := svcOk_no_dot h3
    have c1 : svc.contains 46 = false := by simpa using d1
    have c2 : inst.contains 46 = false := by simpa using d2
    have c3 : typ.contains 46 = false := by simpa using d3
    rw [c1, c2, c3]
    simp only [Bool.or_self, Bool.false_eq_true, if_false]
    rw [C16_parse_render svc inst typ loc h1 h2 h3 h4]; rfl

theorem C16_from_components_value (svc inst typ loc : List Nat) (p : Parsed)
    (h : fromComponents svc inst typ loc = some p) :
    p.service = svc ∧ p.instance_ = inst ∧ p.type_ = typ ∧ p.locator = loc ∧ p.rid = render svc inst typ loc := by
  have hv := (C16_from_components_iff svc inst typ loc).mp (by simp [h])
  unfold fromComponents at h
  split at h
  · cases h
  · rw [C16_parse_render svc inst typ loc hv.1 hv.2.1 hv.2.2.1 hv.2.2.2] at h
    cases h; exact ⟨rfl, rfl, rfl, rfl, rfl⟩

/-! #### non-vacuity -/
example : TokenG [97, 43, 47, 61, 61] := ⟨[97, 43, 47], [61, 61], rfl, by simp, by decide, by decide⟩
example : isValid [61] = false ∧ isValid [] = false ∧ isValid [97, 10] = false ∧ isValid [97, 61, 97] = false := by
  decide
-- ri.a..b.C.d  (empty instance, dotted locator)
example : (parse [114, 105, 46, 97, 46, 46, 98, 46, 67, 46, 100]).isSome = true := by decide
-- ri.a.b.c.    (empty locator) and a trailing newline are rejected
example : (parse [114, 105, 46, 97, 46, 98, 46, 99, 46]).isSome = false ∧
    (parse [114, 105, 46, 97, 46, 98, 46, 99, 46, 100, 10]).isSome = false := by decide

end ConjureVerif.C16
