import ConjureVerif.Lemmas.Plain
import ConjureVerif.Lemmas.Base64Canon
import ConjureVerif.Gen.PlainSrc
/-
C12 — PLAIN text of every parameter value parses back to the same value.

One round-trip theorem per type.  safelong: `C15_fromStr_complete`; rid / bearer token: `C16`.
-/
set_option linter.unusedSimpArgs false
namespace ConjureVerif.C12
open ConjureVerif ConjureVerif.Plain

/-! #### the code the model transcribes (conjure-object/src/plain.rs), pinned -/

theorem gen_extract_ok : Gen.PlainSrc.extractOk = true := by decide

theorem gen_f64_bodies :
    Gen.PlainSrc.hashes.lookup "Plain for f64::fmt" = some 12577828438287700767 /- "{if*self==f64::INFINITY{fmt::Display::fmt(\"Infinity\",fmt)}elseif*self==f64::NEG_INFINITY{fmt::Display::fmt(\"-Infinity\",fmt)}else{fmt::Display::fmt(self,fmt)}}" -/ ∧
    Gen.PlainSrc.hashes.lookup "FromPlain for f64::from_plain" = some 9648066476919133558 /- "{matchs{\"Infinity\"=>Ok(f64::INFINITY),\"-Infinity\"=>Ok(f64::NEG_INFINITY),s=>s.parse(),}}" -/ := by
  decide +kernel

theorem gen_binary_bodies :
    Gen.PlainSrc.hashes.lookup "Plain for [u8]::fmt" = some 9811898537233545600 /- "{fmt::Display::fmt(&Base64Display::new(self,&STANDARD),fmt)}" -/ ∧
    Gen.PlainSrc.hashes.lookup "Plain for Bytes::fmt" = some 9406949748727506864 /- "{Plain::fmt(&**self,fmt)}" -/ ∧
    Gen.PlainSrc.hashes.lookup "FromPlain for Bytes::from_plain" = some 12318675407653291860 /- "{letbuf=STANDARD.decode(s).map_err(ParseBinaryError)?;Ok(Bytes::from(buf))}" -/ := by
  decide +kernel

theorem gen_datetime_bodies :
    Gen.PlainSrc.hashes.lookup "Plain for DateTime<Utc>::fmt" = some 18077947785315892028 /- "{fmt::Display::fmt(&self.format_with_items(iter::once(Item::Fixed(Fixed::RFC3339))),fmt,)}" -/ ∧
    Gen.PlainSrc.hashes.lookup "FromPlain for DateTime<Utc>::from_plain" = some 5194665675040052682 /- "{DateTime::parse_from_rfc3339(s).map(|t|t.with_timezone(&Utc))}" -/ := by
  decide +kernel

/-- every other type takes `Plain` from `Display` and `FromPlain` from `FromStr` -/
theorem gen_display_fromstr_lists :
    (Gen.PlainSrc.bodies.filter (·.1 == "as_display!")).map (·.2) =
      ["bool", "i32", "ResourceIdentifier", "SafeLong", "str", "String", "Uuid"] ∧
    (Gen.PlainSrc.bodies.filter (·.1 == "as_from_str!")).map (·.2) =
      ["BearerToken", "bool", "i32", "ResourceIdentifier", "SafeLong", "String", "Uuid"] ∧
    Gen.PlainSrc.hashes.lookup "Plain for BearerToken::fmt" = some 7080061650749002806 /- "{fmt::Display::fmt(self.as_str(),fmt)}" -/ ∧
    Gen.PlainSrc.hashes.lookup "macro_rules as_display" = some 16799373132477248045 /- "($t:ty)=>{implPlainfor$t{fnfmt(&self,fmt:&mutfmt::Formatter<'_>)->fmt::Result{fmt::Display::fmt(self,fmt)}}};" -/ ∧
    Gen.PlainSrc.hashes.lookup "macro_rules as_from_str" = some 7064333651520730159 /- "($t:ty)=>{implFromPlainfor$t{typeErr=<$tasFromStr>::Err;#[inline]fnfrom_plain(s:&str)->Result<Self,Self::Err>{s.parse()}}};" -/ := by
  decide +kernel

/-! #### round trips -/

theorem C12_roundtrip_bool (b : Bool) : boolParse (boolText b) = some b := by
  cases b <;> decide

/-- lower-case `true` / `false` -/
theorem C12_bool_spelling : boolText true = [116, 114, 117, 101] ∧ boolText false = [102, 97, 108, 115, 101] := by
  decide

theorem C12_roundtrip_i32 (v : Int) (h : I32 v) : i32Parse (i32Text v) = some v := by
  unfold i32Parse i32Text
  rw [Dec.parseRust_showInt]
  simp [h]

/-- what is assumed of Rust's own `Display`/`FromStr` for `f64` (not code of this repository):
    finite values and NaN print to a text that parses back to them, and that text is never one of
    Conjure's two infinity spellings -/
structure LawfulFloat (E : FloatExt) : Prop where
  fin_roundtrip : ∀ k nz, E.parse (E.display (.fin k nz)) = some (.fin k nz)
  nan_roundtrip : E.parse (E.display .nan) = some .nan
  fin_not_special : ∀ k nz, E.display (.fin k nz) ≠ infinityText ∧ E.display (.fin k nz) ≠ negInfinityText
  nan_not_special : E.display .nan ≠ infinityText ∧ E.display .nan ≠ negInfinityText

/-- doubles, NaN and the infinities included (equality modulo NaN payload — `Dbl` has one NaN) -/
theorem C12_roundtrip_double (E : FloatExt) (hE : LawfulFloat E) (d : Dbl) : dblParse E (dblText E d) = some d := by
  cases d with
  | nan =>
    simp only [dblText, dblParse, reduceCtorEq, if_false]
    rw [if_neg hE.nan_not_special.1, if_neg hE.nan_not_special.2, hE.nan_roundtrip]
  | posInf => simp [dblText, dblParse]
  | negInf =>
    simp only [dblText, dblParse, reduceCtorEq, if_false, if_true]
    rw [if_neg (by decide)]
  | fin k nz =>
    simp only [dblText, dblParse, reduceCtorEq, if_false]
    rw [if_neg (hE.fin_not_special k nz).1, if_neg (hE.fin_not_special k nz).2, hE.fin_roundtrip]

/-- `Infinity` / `-Infinity` (NaN is Rust's own `NaN`, sampled) -/
theorem C12_double_spellings (E : FloatExt) :
    dblText E .posInf = [73, 110, 102, 105, 110, 105, 116, 121] ∧
    dblText E .negInf = [45, 73, 110, 102, 105, 110, 105, 116, 121] := by
  constructor <;> simp [dblText, infinityText, negInfinityText]

def Bytes (bs : List Nat) : Prop := ∀ b ∈ bs, b < 256

/-- binary: padded standard Base64 decodes back to the same bytes -/
theorem C12_roundtrip_binary (bs : List Nat) (h : Bytes bs) : binParse (binText bs) = some bs :=
  Base64.decode_encode bs h

/-- binary, the other direction: the parser accepts only the text `binText` writes — whatever it accepts is
    the canonical spelling of the bytes it returns (canonical padding, zero trailing bits), and those are bytes -/
theorem C12_binary_parse_is_canonical (s bs : List Nat) (h : binParse s = some bs) :
    binText bs = s ∧ Bytes bs :=
  Base64.encode_decode s bs h

/-- the text of a binary: four characters per started group of three bytes, each printable ASCII in `+`..`z`
    other than `\\` (so neither a JSON string nor a header value has to escape it) -/
theorem C12_binary_text_shape (bs : List Nat) :
    (binText bs).length = 4 * ((bs.length + 2) / 3) ∧ ∀ c ∈ binText bs, Base64.PlainChar c :=
  Base64.encode_shape bs

/-- no two texts parse to the same binary value -/
theorem C12_binary_parse_injective (s t bs : List Nat) (hs : binParse s = some bs) (ht : binParse t = some bs) :
    s = t :=
  Base64.decode_injective s t bs hs ht

/-- the premises are met by a non-trivial text, and a text with non-zero trailing bits is refused -/
example : binParse [65, 81, 73, 61] = some [1, 2] ∧ binParse [65, 81, 74, 61] = none := by decide

theorem mem_of_mem_take {l : List Nat} {n : Nat} {x : Nat} (h : x ∈ l.take n) : x ∈ l :=
  List.mem_of_mem_take h
theorem mem_of_mem_drop {l : List Nat} {n : Nat} {x : Nat} (h : x ∈ l.drop n) : x ∈ l :=
  List.mem_of_mem_drop h

/-- uuid: the hyphenated lower-case text parses back to the same 16 bytes -/
theorem C12_roundtrip_uuid (u : List Nat) (hl : u.length = 16) (hb : Bytes u) :
    uuidParse (uuidText u) = some u := by
  have g1 : Bytes (u.take 4) := fun b h => hb b (mem_of_mem_take h)
  have g2 : Bytes ((u.drop 4).take 2) := fun b h => hb b (mem_of_mem_drop (mem_of_mem_take h))
  have g3 : Bytes ((u.drop 6).take 2) := fun b h => hb b (mem_of_mem_drop (mem_of_mem_take h))
  have g4 : Bytes ((u.drop 8).take 2) := fun b h => hb b (mem_of_mem_drop (mem_of_mem_take h))
  have g5 : Bytes (u.drop 10) := fun b h => hb b (mem_of_mem_drop h)
  have hsplit : Uri.splitOn 45 (uuidText u) = (uuidGroups u).map hexEnc := by
    unfold uuidText
    apply splitOn_joinHyphen
    · simp [uuidGroups]
    · intro p hp
      simp only [uuidGroups, List.map_cons, List.map_nil, List.mem_cons, List.not_mem_nil, or_false] at hp
      rcases hp with rfl | rfl | rfl | rfl | rfl
      · exact hyphen_not_mem_hexEnc _ g1
      · exact hyphen_not_mem_hexEnc _ g2
      · exact hyphen_not_mem_hexEnc _ g3
      · exact hyphen_not_mem_hexEnc _ g4
      · exact hyphen_not_mem_hexEnc _ g5
  have hlen : (uuidText u).length = 36 := by
    have l1 : (hexEnc (u.take 4)).length = 8 := by rw [hexEnc_length, List.length_take, hl]; rfl
    have l2 : (hexEnc ((u.drop 4).take 2)).length = 4 := by
      rw [hexEnc_length, List.length_take, List.length_drop, hl]; rfl
    have l3 : (hexEnc ((u.drop 6).take 2)).length = 4 := by
      rw [hexEnc_length, List.length_take, List.length_drop, hl]; rfl
    have l4 : (hexEnc ((u.drop 8).take 2)).length = 4 := by
      rw [hexEnc_length, List.length_take, List.length_drop, hl]; rfl
    have l5 : (hexEnc (u.drop 10)).length = 12 := by rw [hexEnc_length, List.length_drop, hl]
    simp only [uuidText, uuidGroups, List.map_cons, List.map_nil, joinHyphen, List.length_append,
      List.length_cons, l1, l2, l3, l4, l5]
  have hcat : u.take 4 ++ (u.drop 4).take 2 ++ (u.drop 6).take 2 ++ (u.drop 8).take 2 ++ u.drop 10 = u := by
    have e1 : (u.drop 4).take 2 ++ (u.drop 6) = u.drop 4 := by
      have := List.take_append_drop 2 (u.drop 4); simpa [List.drop_drop] using this
    have e2 : (u.drop 6).take 2 ++ (u.drop 8) = u.drop 6 := by
      have := List.take_append_drop 2 (u.drop 6); simpa [List.drop_drop] using this
    have e3 : (u.drop 8).take 2 ++ (u.drop 10) = u.drop 8 := by
      have := List.take_append_drop 2 (u.drop 8); simpa [List.drop_drop] using this
    simp only [List.append_assoc]
    rw [e3, e2, e1, List.take_append_drop]
  unfold uuidParse
  rw [if_neg (by rw [hlen]; decide), if_pos hlen]
  unfold uuidParseHyphenated
  rw [hsplit]
  simp only [uuidGroups, List.map_cons, List.map_nil, hexEnc_length, List.length_take, List.length_drop, hl]
  rw [if_pos (by decide)]
  rw [unhexPairs_hexEnc _ g1, unhexPairs_hexEnc _ g2, unhexPairs_hexEnc _ g3, unhexPairs_hexEnc _ g4,
    unhexPairs_hexEnc _ g5]
  simp only [hcat]

theorem readFrac_digits (k x : Nat) (hk : 1 ≤ k) (hk9 : k ≤ 9) (hx : x < 10 ^ k) :
    readFrac (46 :: padN k x ++ [43, 48, 48, 58, 48, 48]) = (some (x * 10 ^ (9 - k)), [43, 48, 48, 58, 48, 48]) := by
  have hnd : Dec.isDigit 43 = false := by decide
  have hne : (padN k x).isEmpty = false := by
    have := padN_length k x; cases hp : padN k x <;> simp_all; omega
  simp only [readFrac, List.cons_append, List.nil_append]
  rw [takeDigits_padN k _ 43 _ hnd]
  simp only [hne, Bool.false_eq_true, if_false]
  rw [fracVal_padN k _ hk9 hx]

/-- reading the tail of the formatted text after the seconds: fraction and offset -/
theorem frac_tail (ns : Nat) (h : ns ≤ 999999999) :
    readFrac (fracText ns ++ [43, 48, 48, 58, 48, 48]) = (some ns, [43, 48, 48, 58, 48, 48]) := by
  unfold fracText
  by_cases h0 : ns = 0
  · subst h0; rfl
  · rw [if_neg h0]
    by_cases h6 : ns % 1000000 = 0
    · rw [if_pos h6, readFrac_digits 3 _ (by omega) (by omega) (by omega)]
      congr 2; omega
    · rw [if_neg h6]
      by_cases h3 : ns % 1000 = 0
      · rw [if_pos h3, readFrac_digits 6 _ (by omega) (by omega) (by omega)]
        congr 2; omega
      · rw [if_neg h3, readFrac_digits 9 _ (by omega) (by omega) (by omega)]
        simp

/-- datetime with a four-digit year: the RFC 3339 text chrono writes for valid civil fields parses
    back to the same fields (the instant <-> civil conversion is chrono's and is sampled) -/
theorem C12_datetime_text_roundtrip (c : Civil) (hv : c.Valid) : dtParse (dtText c) = some c := by
  cases c with
  | mk year month day hour minute second nano =>
  obtain ⟨hy, hm1, hm2, hd1, hd2, hh, hmi, hs, hn⟩ := hv
  simp only at hy hm1 hm2 hd1 hd2 hh hmi hs hn
  have hdi : daysIn year month ≤ 31 := by unfold daysIn; split <;> (try split) <;> omega
  unfold dtParse dtText
  simp only [List.append_assoc, List.cons_append]
  rw [readN_padN 4 year _ (by omega)]
  simp only [expect, if_true, Option.bind_some]
  rw [readN_padN 2 month _ (by omega)]
  simp only [expect, if_true, Option.bind_some]
  rw [readN_padN 2 day _ (by omega)]
  simp only [Option.bind_some]
  rw [readN_padN 2 hour _ (by omega)]
  simp only [expect, if_true, Option.bind_some]
  rw [readN_padN 2 minute _ (by omega)]
  simp only [expect, if_true, Option.bind_some]
  rw [readN_padN 2 second _ (by omega)]
  simp only
  rw [frac_tail nano hn]
  simp only
  rw [if_pos ⟨by decide, ⟨hy, hm1, hm2, hd1, hd2, hh, hmi, hs, hn⟩⟩]

/-! #### non-vacuity -/
example : ({ year := 2024, month := 2, day := 29, hour := 23, minute := 59, second := 59, nano := 120000000 } : Civil).Valid := by
  decide
example : dtParse [50, 48, 50, 52, 45, 48, 50, 45, 50, 57, 84, 50, 51, 58, 53, 57, 58, 53, 57, 46, 49, 50, 90] =
    some { year := 2024, month := 2, day := 29, hour := 23, minute := 59, second := 59, nano := 120000000 } := by
  decide
example : I32 (-2147483648) ∧ ¬ I32 2147483648 := by decide

/-! #### consequence: no two values share a PLAIN text

A text that parses back to its value cannot be the text of a second value, so a path segment, query value or
header written from one value is never read as another (doubles: modulo the NaN payload, as above). -/

theorem inj_of_roundtrip {α β : Type} (f : α → β) (g : β → Option α) (P : α → Prop)
    (h : ∀ a, P a → g (f a) = some a) (a b : α) (ha : P a) (hb : P b) (e : f a = f b) : a = b := by
  have h1 := h a ha
  rw [e, h b hb] at h1
  exact (Option.some.inj h1).symm

theorem C12_text_injective (E : FloatExt) (hE : LawfulFloat E) :
    (∀ v w : Int, I32 v → I32 w → i32Text v = i32Text w → v = w) ∧
    (∀ d d' : Dbl, dblText E d = dblText E d' → d = d') ∧
    (∀ a b : List Nat, Bytes a → Bytes b → binText a = binText b → a = b) ∧
    (∀ u u' : List Nat, u.length = 16 ∧ Bytes u → u'.length = 16 ∧ Bytes u' → uuidText u = uuidText u' → u = u') ∧
    (∀ c c' : Civil, c.Valid → c'.Valid → dtText c = dtText c' → c = c') :=
  ⟨inj_of_roundtrip i32Text i32Parse I32 C12_roundtrip_i32,
   fun d d' => inj_of_roundtrip (dblText E) (dblParse E) (fun _ => True)
     (fun d _ => C12_roundtrip_double E hE d) d d' trivial trivial,
   inj_of_roundtrip binText binParse Bytes C12_roundtrip_binary,
   inj_of_roundtrip uuidText uuidParse (fun u => u.length = 16 ∧ Bytes u)
     (fun u h => C12_roundtrip_uuid u h.1 h.2),
   inj_of_roundtrip dtText dtParse Civil.Valid C12_datetime_text_roundtrip⟩

end ConjureVerif.C12
