import ConjureVerif.Lemmas.Call
import ConjureVerif.Gen.ServerModSrc
import ConjureVerif.Gen.ServerConjureSrc
import ConjureVerif.Lemmas.Endpoint
import ConjureVerif.Lemmas.Body
import ConjureVerif.Props.C19
/-
C04 — A client call reaches the matching server handler with identical arguments.

Composition of: the client method's request assembly (Model/Call.lean: UriBuilder pushes per C07's model, header
and auth encoding), the router's hand-over, the endpoint handler (Model/Endpoint.lean, C19) and, on the way back,
the server's response serializers against the client's decode functions (Model/Body.lean, C18).  Values travel as
their PLAIN texts; C12 proves that text ↦ value is injective and `parse (text v) = v` for every PLAIN type, C16 the
same for tokens, C01/C06/C18 for JSON bodies — here it is shown that the *texts* the server decodes are exactly the
texts the client was given, for every byte string.
-/
set_option linter.unusedSimpArgs false
namespace ConjureVerif.C04
open ConjureVerif ConjureVerif.Endpoint ConjureVerif.Uri ConjureVerif.Call ConjureVerif.C07

theorem filter_key_unique {α β : Type} [BEq β] [LawfulBEq β] (f : α → β) : ∀ (l : List α), (l.map f).Nodup →
    ∀ a ∈ l, l.filter (fun b => f b == f a) = [a]
  | [], _, _, ha => by cases ha
  | x :: xs, hn, a, ha => by
    simp only [List.map_cons, List.nodup_cons] at hn
    rcases List.mem_cons.mp ha with rfl | ha'
    · have : xs.filter (fun b => f b == f a) = [] := by
        apply List.filter_eq_nil_iff.mpr
        intro b hb hp
        exact hn.1 (List.mem_map.mpr ⟨b, hb, eq_of_beq hp⟩)
      simp [List.filter_cons, this]
    · have hx : (f x == f a) = false := by
        cases h : f x == f a
        · rfl
        · exact absurd (List.mem_map.mpr ⟨a, ha', (eq_of_beq h).symm⟩) hn.1
      simp only [List.filter_cons, hx]
      exact filter_key_unique f xs hn.2 a ha'

theorem find_of_filter {α : Type} (p : α → Bool) (a : α) : ∀ l : List α, l.filter p = [a] → l.find? p = some a
  | [], h => by cases h
  | x :: xs, h => by
    simp only [List.filter_cons] at h
    simp only [List.find?_cons]
    by_cases hx : p x = true
    · simp only [hx, if_true, List.cons.injEq] at h
      obtain ⟨rfl, -⟩ := h
      simp [hx]
    · simp only [hx] at h ⊢; exact find_of_filter p a xs h

/-- the arguments of one kind -/
def ofKind (k : Kind) (args : List CArg) : List CArg := args.filter (fun a => a.spec.kind == k)

/-- argument names are pairwise distinct within each parameter kind (the Conjure compiler guarantees it), and no
header parameter is called `Authorization` or `Cookie` -/
structure Distinct (args : List CArg) : Prop where
  path : ((ofKind .path args).map (·.spec.name)).Nodup
  query : ((ofKind .query args).map (·.spec.name)).Nodup
  header : ((ofKind .header args).map (·.spec.name)).Nodup
  reserved : ∀ a ∈ args, a.spec.kind = .header → a.spec.name ≠ authorization ∧ a.spec.name ≠ cookie

theorem request_parts (tmpl : List TSeg) (args : List CArg) (wf : CallWF tmpl args)
    (ct : CtClass) (pl : Payload) (dbl : List (Endpoint.Bytes × Bool)) (r : Request)
    (hr : serverRequest Gen.Uri.component tmpl args ct pl dbl = some r) :
    r.pathParams = routed Gen.Uri.component tmpl args ∧
    r.query = queryOf (uriBytes Gen.Uri.component tmpl args) ∧
    clientHeaders args = some r.headers ∧ r.ct = ct ∧ r.payload = pl ∧ r.dbl = dbl := by
  have g := gen_component_good
  unfold serverRequest at hr
  rw [route_uri _ g tmpl args wf] at hr
  cases hh : clientHeaders args with
  | none => simp [hh] at hr
  | some hs => simp only [hh, Option.some.injEq] at hr; subst hr; simp

/-- **path parameters**: whatever byte string the caller passes for a path parameter, the server's `path_param`
obtains exactly that one value — it cannot add segments, end the path or be altered -/
theorem C04_path_arg (tmpl : List TSeg) (args : List CArg) (wf : CallWF tmpl args) (d : Distinct args)
    (a : CArg) (v : Endpoint.Bytes) (ha : a ∈ args) (hk : a.spec.kind = .path) (hv : a.texts = [v])
    (hin : TSeg.param a.spec.name ∈ tmpl)
    (ct : CtClass) (pl : Payload) (dbl : List (Endpoint.Bytes × Bool)) (r : Request)
    (hr : serverRequest Gen.Uri.component tmpl args ct pl dbl = some r) :
    Uri.pathParam ((r.pathParams.lookup a.spec.name).getD []) = [v] := by
  have g := gen_component_good
  rw [(request_parts tmpl args wf ct pl dbl r hr).1, routed_lookup _ args a.spec.name tmpl hin]
  have hmem : a ∈ ofKind .path args := List.mem_filter.mpr ⟨ha, by simp [hk]⟩
  have hfil := filter_key_unique (fun b : CArg => b.spec.name) (ofKind .path args) d.path a hmem
  have hf : args.find? (fun b => b.spec.kind == .path && b.spec.name == a.spec.name) = some a := by
    apply find_of_filter
    rw [← hfil]; unfold ofKind; rw [List.filter_filter]
    congr 1; funext b; simp [Bool.and_comm]
  have : pathText args a.spec.name = v := by simp [pathText, hf, hv]
  rw [this]
  simp only [Option.getD_some]
  exact C07_path_param_one_value _ g v (wf.texts a ha v (by simp [hv]))

/-- **query parameters** (single, optional, list, set): the values the server finds under the argument's key are
exactly the supplied texts, in order — none for an absent optional or an empty collection -/
theorem C04_query_arg (tmpl : List TSeg) (args : List CArg) (wf : CallWF tmpl args) (d : Distinct args)
    (a : CArg) (ha : a ∈ args) (hk : a.spec.kind = .query)
    (ct : CtClass) (pl : Payload) (dbl : List (Endpoint.Bytes × Bool)) (r : Request)
    (hr : serverRequest Gen.Uri.component tmpl args ct pl dbl = some r) :
    queryVals r a.spec.name = a.texts := by
  have g := gen_component_good
  rw [query_values _ g tmpl args wf r (request_parts tmpl args wf ct pl dbl r hr).2.1]
  have hmem : a ∈ ofKind .query args := List.mem_filter.mpr ⟨ha, by simp [hk]⟩
  have := filter_key_unique (fun b : CArg => b.spec.name) (ofKind .query args) d.query a hmem
  unfold ofKind at this
  rw [this]; simp

/-- **header parameters**: the server sees exactly the supplied header texts under the header's name -/
theorem C04_header_arg (tmpl : List TSeg) (args : List CArg) (wf : CallWF tmpl args) (d : Distinct args)
    (a : CArg) (ha : a ∈ args) (hk : a.spec.kind = .header)
    (ct : CtClass) (pl : Payload) (dbl : List (Endpoint.Bytes × Bool)) (r : Request)
    (hr : serverRequest Gen.Uri.component tmpl args ct pl dbl = some r) :
    headerVals r a.spec.name = a.texts := by
  have hh := (request_parts tmpl args wf ct pl dbl r hr).2.2.1
  unfold headerVals
  rw [clientHeaders_vals args r.headers a.spec.name hh (d.reserved a ha hk).1 (d.reserved a ha hk).2]
  have hmem : a ∈ ofKind .header args := List.mem_filter.mpr ⟨ha, by simp [hk]⟩
  have := filter_key_unique (fun b : CArg => b.spec.name) (ofKind .header args) d.header a hmem
  unfold ofKind at this
  rw [this]; simp

/-- **a header value is refused or delivered unaltered**: for any byte string given as a header value, either the
client refuses the call, or the server is handed exactly that byte string — and then rejects it unless it is
text (`to_str`), so a value that HTTP cannot carry as visible ASCII is never delivered to the handler altered -/
theorem C04_header_refused_or_equal (tmpl : List TSeg) (args : List CArg) (wf : CallWF tmpl args) (d : Distinct args)
    (a : CArg) (v : Endpoint.Bytes) (ha : a ∈ args) (hk : a.spec.kind = .header) (hv : a.texts = [v])
    (ct : CtClass) (pl : Payload) (dbl : List (Endpoint.Bytes × Bool)) :
    (headerValueOk v = false → serverRequest Gen.Uri.component tmpl args ct pl dbl = none) ∧
    (∀ r, serverRequest Gen.Uri.component tmpl args ct pl dbl = some r →
      headerVals r a.spec.name = [v] ∧
      (toStrOk v = false → ∀ ext i, ∃ e, decodeHeader ext i a.spec.dec a.spec.ty [v] = .error e)) := by
  constructor
  · intro hbad
    have : clientHeaders args = none :=
      (clientHeaders_none_iff args).mpr ⟨a, ha, hk, v, by simp [hv], hbad⟩
    simp [serverRequest, this]
  · intro r hr
    refine ⟨by rw [C04_header_arg tmpl args wf d a ha hk ct pl dbl r hr, hv], ?_⟩
    intro hts ext i
    unfold decodeHeader
    cases a.spec.dec <;> simp [hts]

/-- **auth**: the `Authorization` (or `Cookie`) header the server parses is the prefix followed by the caller's
token, and `parse_auth_inner` accepts it exactly when the token is valid, yielding that token -/
theorem C04_auth (pfx tok : Endpoint.Bytes) (rest : List Endpoint.Bytes) (htext : toStrOk (pfx ++ tok) = true) :
    (decodeAuth pfx ((pfx ++ tok) :: rest) = .ok () ↔ Token.isValid tok = true) ∧
    stripPrefix pfx (pfx ++ tok) = some tok := by
  have hs : stripPrefix pfx (pfx ++ tok) = some tok := by
    unfold stripPrefix
    simp [List.prefix_append]
  refine ⟨?_, hs⟩
  rw [decodeAuth_ok]
  constructor
  · rintro ⟨v, rest', t, hv, -, hst, hval⟩
    cases hv
    rw [hs] at hst; cases hst; exact hval
  · intro hval
    exact ⟨pfx ++ tok, rest, tok, rfl, htext, hs, hval⟩

/-- the header list the client emits holds the auth header for an auth argument -/
theorem C04_auth_header : ∀ (args : List CArg) (hs : List (Endpoint.Bytes × Endpoint.Bytes)) (a : CArg),
    clientHeaders args = some hs → a ∈ args → a.spec.kind = .auth →
    (authorization, bearer ++ a.texts.headD []) ∈ hs
  | [], _, _, _, ha, _ => by cases ha
  | x :: xs, hs, a, h, ha, hk => by
    unfold clientHeaders at h
    rcases List.mem_cons.mp ha with rfl | ha'
    · simp only [hk] at h
      cases hr : clientHeaders xs with
      | none => simp [hr] at h
      | some hs' => simp only [hr, Option.map_some, Option.some.injEq] at h; subst h; simp
    · cases hx : x.spec.kind <;> simp only [hx] at h
      case header =>
        split at h
        · cases hr : clientHeaders xs with
          | none => simp [hr] at h
          | some hs' =>
            simp only [hr, Option.map_some, Option.some.injEq] at h; subst h
            exact List.mem_append_right _ (C04_auth_header xs hs' a hr ha' hk)
        · cases h
      case auth =>
        cases hr : clientHeaders xs with
        | none => simp [hr] at h
        | some hs' =>
          simp only [hr, Option.map_some, Option.some.injEq] at h; subst h
          exact List.mem_cons_of_mem _ (C04_auth_header xs hs' a hr ha' hk)
      case cookie =>
        cases hr : clientHeaders xs with
        | none => simp [hr] at h
        | some hs' =>
          simp only [hr, Option.map_some, Option.some.injEq] at h; subst h
          exact List.mem_cons_of_mem _ (C04_auth_header xs hs' a hr ha' hk)
      all_goals exact C04_auth_header xs hs a h ha' hk

/-! #### the way back -/

/-- **return values**: what the client's `decode_*_response` yields for the response the server's serializer
produced is the handler's return value — `()`; the value `v` when `parse` (the client's JSON deserializer, C01/C18)
reads the server's document back as `v`; `T::default()` / `None` for an empty collection, absent optional or absent
stream sent as 204; the byte stream itself for binary — for every chunking of the body -/
theorem C04_return_roundtrip (p : Produces) (ret : Ret) (resp : Resp) (h : respond p ret = some resp)
    (bss : List (List Nat)) (hb : bss.flatten = resp.body) (parse : Endpoint.Bytes → Body.Parse) :
    clientDecode p resp (Body.oks bss) parse =
      match ret with
      | .unit => .unit
      | .value isDefault j =>
        if p = .collection ∧ isDefault = true then .default_ else Body.ClientResult.ofParse (parse j)
      | .stream _ => .stream
      | .noStream => .default_ := by
  cases p <;> cases ret <;> simp only [respond] at h
  all_goals try (cases h; done)
  case empty.unit => cases h; simp [clientDecode, clientKind, Body.decodeResponse]
  case std.value d j =>
    cases h
    simp only [clientDecode, clientKind, Body.decodeResponse] at hb ⊢
    rw [show ((RCt.json == RCt.json) = true) from rfl, Body.ser_oks, hb]; simp
  case collection.value d j =>
    cases d
    · simp only [Bool.false_eq_true, if_false, Option.some.injEq] at h; subst h
      simp only [clientDecode, clientKind, Body.decodeResponse] at hb ⊢
      rw [show ((RCt.json == RCt.json) = true) from rfl]
      simp only [Bool.false_eq_true, if_false]
      rw [Body.ser_oks, hb]; simp
    · simp only [if_true, Option.some.injEq] at h; subst h
      simp [clientDecode, clientKind, Body.decodeResponse]
  case binary.stream b => cases h; simp [clientDecode, clientKind, Body.decodeResponse]
  case optBinary.stream b => cases h; simp [clientDecode, clientKind, Body.decodeResponse]
  case optBinary.noStream => cases h; simp [clientDecode, clientKind, Body.decodeResponse]

/-- the serializable response serializers: the encoding is the one the runtime negotiates from the request's `Accept`
(C11), the body is written by that encoding's serializer and the `Content-Type` is that encoding's own; the
collection serializer sends 204 for the empty value and otherwise defers to the standard one -/
theorem gen_response_serializers :
    Gen.ServerModSrc.hashes.lookup "EmptyResponseSerializer::serialize_inner" = some 2631475357265666008 /- "{letmutresponse=Response::new(body);*response.status_mut()=StatusCode::NO_CONTENT;Ok(response)}" -/ ∧
    Gen.ServerModSrc.hashes.lookup "SerializeResponse<(),W> for EmptyResponseSerializer::serialize" = some 4411690840528284411 /- "{Self::serialize_inner(ResponseBody::Empty)}" -/ ∧
    Gen.ServerModSrc.hashes.lookup "AsyncSerializeResponse<(),W> for EmptyResponseSerializer::serialize" = some 8947365739981416789 /- "{Self::serialize_inner(AsyncResponseBody::Empty)}" -/ ∧
    Gen.ServerModSrc.hashes.lookup "StdResponseSerializer::serialize_inner" = some 6024535377672111628 /- "{letencoding=runtime.response_body_encoding(request_headers)?;letmutbody=vec![];value.erased_serialize(&mut*encoding.serializer(&mutbody).serializer()).map_err(Error::internal)?;letmutresponse=Response::new(make_body(body.into()));response.headers_mut().insert(CONTENT_TYPE,encoding.content_type());Ok(response)}" -/ ∧
    Gen.ServerModSrc.hashes.lookup "SerializeResponse<T,W> for StdResponseSerializer::serialize" = some 12355384306275551661 /- "{Self::serialize_inner(runtime,request_headers,&value,ResponseBody::Fixed)}" -/ ∧
    Gen.ServerModSrc.hashes.lookup "AsyncSerializeResponse<T,W> for StdResponseSerializer::serialize" = some 10021612588544366905 /- "{Self::serialize_inner(runtime,request_headers,&value,AsyncResponseBody::Fixed)}" -/ ∧
    Gen.ServerConjureSrc.hashes.lookup "SerializeResponse<T,W> for CollectionResponseSerializer::serialize" = some 14348492882526632244 /- "{ifvalue==T::default(){<EmptyResponseSerializerasSerializeResponse<_,_>>::serialize(runtime,request_headers,(),)}else{<StdResponseSerializerasSerializeResponse<_,_>>::serialize(runtime,request_headers,value,)}}" -/ ∧
    Gen.ServerConjureSrc.hashes.lookup "AsyncSerializeResponse<T,W> for CollectionResponseSerializer::serialize" = some 5846651114718490160 /- "{ifvalue==T::default(){<EmptyResponseSerializerasAsyncSerializeResponse<_,_>>::serialize(runtime,request_headers,(),)}else{<StdResponseSerializerasAsyncSerializeResponse<_,_>>::serialize(runtime,request_headers,value,)}}" -/ := by
  decide +kernel

/-- **whichever encoding the response is negotiated to**: under JSON the negotiated response is the one above; under
either encoding the response is labelled with the content type of the encoding its body is written in, so a client
that reads by Content-Type (with `parse e` the client deserializer of encoding `e`) gets back the handler's value,
or the empty value for a 204 — for every chunking of the body -/
theorem C04_return_roundtrip_negotiated (e : Enc) (p : Produces) (isDefault : Bool) (doc : Enc → Endpoint.Bytes)
    (resp : Resp) (h : respondIn e p isDefault doc = some resp)
    (bss : List (List Nat)) (hb : bss.flatten = resp.body) (parse : Enc → Endpoint.Bytes → Body.Parse) :
    (e = .json → respond p (.value isDefault (doc .json)) = some resp) ∧
    (resp.status204 = false → resp.ct = e.ct ∧ resp.body = doc e) ∧
    readByCt resp (Body.oks bss) parse =
      if p = .collection ∧ isDefault = true then .default_ else Body.ClientResult.ofParse (parse e (doc e)) := by
  cases p <;> simp only [respondIn] at h
  all_goals try (cases h; done)
  case std =>
    cases h
    refine ⟨?_, ?_, ?_⟩
    · intro he; subst he; rfl
    · intro _; exact ⟨rfl, rfl⟩
    · simp only at hb
      cases e <;> simp [readByCt, Enc.ct, Body.ser_oks, hb]
  case collection =>
    cases isDefault
    · simp only [Bool.false_eq_true, if_false, Option.some.injEq] at h; subst h
      refine ⟨?_, ?_, ?_⟩
      · intro he; subst he; rfl
      · intro _; exact ⟨rfl, rfl⟩
      · simp only at hb
        cases e <;> simp [readByCt, Enc.ct, Body.ser_oks, hb]
    · simp only [if_true, Option.some.injEq] at h; subst h
      refine ⟨?_, ?_, ?_⟩
      · intro he; subst he; rfl
      · intro h'; cases h'
      · simp [readByCt]

/-- non-vacuity: a Smile-negotiated value and an empty collection -/
example : respondIn .smile .std false (fun e => if e = .json then [49] else [58, 41, 10, 1, 194]) =
    some { status204 := false, ct := .smile, body := [58, 41, 10, 1, 194] } := by decide
example : respondIn .smile .collection true (fun _ => [91, 93]) = some { status204 := true, ct := .none, body := [] } := by decide

/-! #### composition: the handler runs, once, on what the client sent -/

/-- what it takes for the values a caller supplies to be decodable: right cardinality for the decoder, each text
in the language of its type (true of `to_plain` of any value, by C12/C15/C16), header texts visible ASCII, a valid
token that is text, an acceptable body -/
def Supplied (ext : Endpoint.Bytes → Bool) (ct : CtClass) (pl : Payload) (i : Nat) (a : CArg) : Prop :=
  match a.spec.kind with
  | .path => ∃ v, a.texts = [v] ∧ decodeParam ext i a.spec.dec a.spec.ty [v] = .ok ()
  | .query => decodeParam ext i a.spec.dec a.spec.ty a.texts = .ok ()
  | .header => decodeHeader ext i a.spec.dec a.spec.ty a.texts = .ok ()
  | .auth => ∃ tok, a.texts = [tok] ∧ toStrOk (bearer ++ tok) = true ∧ Token.isValid tok = true
  | .cookie => ∃ tok, a.texts = [tok] ∧ toStrOk (a.spec.name ++ tok) = true ∧ Token.isValid tok = true
  | .body => decodeBody i a.spec.dec ct pl = .ok ()
  | .context => True

/-- **auth arguments**: the server parses exactly the one `Authorization` / `Cookie` value the client wrote for the
endpoint's auth argument -/
theorem C04_auth_arg (tmpl : List TSeg) (args : List CArg) (wf : CallWF tmpl args) (d : Distinct args)
    (a : CArg) (ha : ofKind .auth args = [a])
    (ct : CtClass) (pl : Payload) (dbl : List (Endpoint.Bytes × Bool)) (r : Request)
    (hr : serverRequest Gen.Uri.component tmpl args ct pl dbl = some r) :
    headerVals r authorization = [bearer ++ a.texts.headD []] := by
  have hh := (request_parts tmpl args wf ct pl dbl r hr).2.2.1
  unfold headerVals
  rw [clientHeaders_auth_vals args r.headers hh (fun b hb hk => (d.reserved b hb hk).1)]
  unfold ofKind at ha
  rw [ha]; rfl

theorem C04_cookie_arg (tmpl : List TSeg) (args : List CArg) (wf : CallWF tmpl args) (d : Distinct args)
    (a : CArg) (ha : ofKind .cookie args = [a])
    (ct : CtClass) (pl : Payload) (dbl : List (Endpoint.Bytes × Bool)) (r : Request)
    (hr : serverRequest Gen.Uri.component tmpl args ct pl dbl = some r) :
    headerVals r cookie = [a.spec.name ++ a.texts.headD []] := by
  have hh := (request_parts tmpl args wf ct pl dbl r hr).2.2.1
  unfold headerVals
  rw [clientHeaders_cookie_vals args r.headers hh (fun b hb hk => (d.reserved b hb hk).2)]
  unfold ofKind at ha
  rw [ha]; rfl

/-- **the handler is invoked** (exactly once, by C19) for any call whose supplied values are decodable — i.e. client
output is acceptable server input, whatever the texts contain; an endpoint has at most one auth argument -/
theorem C04_handler_runs (tmpl : List TSeg) (args : List CArg) (wf : CallWF tmpl args) (d : Distinct args)
    (hpaths : ∀ a ∈ args, a.spec.kind = .path → TSeg.param a.spec.name ∈ tmpl)
    (hauth : ∀ a ∈ args, a.spec.kind = .auth → ofKind .auth args = [a])
    (hcookie : ∀ a ∈ args, a.spec.kind = .cookie → ofKind .cookie args = [a])
    (ct : CtClass) (pl : Payload) (dbl : List (Endpoint.Bytes × Bool)) (r : Request)
    (hr : serverRequest Gen.Uri.component tmpl args ct pl dbl = some r)
    (hs : ∀ i a, args[i]? = some a → Supplied (fun t => (dbl.lookup t).getD false) ct pl i a) :
    (handleReq (args.map (·.spec)) r).error = none := by
  rw [C19.C19_all_decode_iff]
  intro k s hk
  rw [List.getElem?_map] at hk
  cases ha : args[k]? with
  | none => simp [ha] at hk
  | some a =>
    simp only [ha, Option.map_some, Option.some.injEq] at hk
    subst hk
    have hmem : a ∈ args := List.mem_of_getElem? ha
    have hsup := hs k a ha
    have parts := request_parts tmpl args wf ct pl dbl r hr
    unfold Supplied at hsup
    unfold decodeArg
    cases hkind : a.spec.kind <;> simp only [hkind] at hsup ⊢
    case path =>
      obtain ⟨v, hv, hd⟩ := hsup
      rw [C04_path_arg tmpl args wf d a v hmem hkind hv (hpaths a hmem hkind) ct pl dbl r hr, parts.2.2.2.2.2, hd]
    case query =>
      rw [C04_query_arg tmpl args wf d a hmem hkind ct pl dbl r hr, parts.2.2.2.2.2, hsup]
    case header =>
      rw [C04_header_arg tmpl args wf d a hmem hkind ct pl dbl r hr, parts.2.2.2.2.2, hsup]
    case body => rw [parts.2.2.2.1, parts.2.2.2.2.1, hsup]
    case auth =>
      obtain ⟨tok, ht, htxt, hval⟩ := hsup
      rw [C04_auth_arg tmpl args wf d a (hauth a hmem hkind) ct pl dbl r hr, ht]
      exact ((C04_auth bearer tok [] htxt).1).mpr hval
    case cookie =>
      obtain ⟨tok, ht, htxt, hval⟩ := hsup
      rw [C04_cookie_arg tmpl args wf d a (hcookie a hmem hkind) ct pl dbl r hr, ht]
      exact ((C04_auth a.spec.name tok [] htxt).1).mpr hval

/-! #### non-vacuity -/
def exTmpl : List TSeg := [.lit [118], .param [112]]
def exArgs : List CArg := [
  { spec := { kind := .path, dec := .one, ty := .str, name := [112], logName := [112], ident := [112], safe := false }, texts := [[47, 63, 35, 37]] },
  { spec := { kind := .query, dec := .seq, ty := .int, name := [113], logName := [113], ident := [113], safe := false }, texts := [[49], [50]] },
  { spec := { kind := .header, dec := .one, ty := .str, name := [104], logName := [104], ident := [104], safe := false }, texts := [[120, 32, 121]] }]

example : (uriBytes Gen.Uri.component exTmpl exArgs) = [47, 118, 47, 37, 50, 70, 37, 51, 70, 37, 50, 51, 37, 50, 53, 63, 113, 61, 49, 38, 113, 61, 50] := by
  decide +kernel
example : ((serverRequest Gen.Uri.component exTmpl exArgs .absent .ok []).map (fun r => (handleReq (exArgs.map (·.spec)) r).error.isNone)) = some true := by
  decide +kernel

end ConjureVerif.C04
