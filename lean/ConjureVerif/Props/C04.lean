import ConjureVerif.Lemmas.Call
import ConjureVerif.Lemmas.Emit
import ConjureVerif.Lemmas.EmitUri
import ConjureVerif.Gen.CodegenClientsSrc
import ConjureVerif.Gen.CodegenServersSrc
import ConjureVerif.Gen.CodegenHttpPathsSrc
import ConjureVerif.Gen.CodegenContextSrc
import ConjureVerif.Gen.Keywords
import ConjureVerif.Gen.ServerModSrc
import ConjureVerif.Gen.ServerConjureSrc
import ConjureVerif.Lemmas.Endpoint
import ConjureVerif.Lemmas.Body
import ConjureVerif.Props.C19
/-
C04 — A client call reaches the matching server handler with identical arguments.

Composition of: the client method's request assembly (Model/Call.lean: UriBuilder pushes per C07's model, header
and auth encoding), the router's hand-over, the endpoint handler (Model/Endpoint.lean, C19) and, on the way back,
the server's response serializers against the client's decode functions (Model/Body.lean, C18).  Values travel as
their PLAIN texts; C12 proves that text ↦ value is injective and `parse (text v) = v` for every PLAIN type, C16 the
same for tokens, C01/C06/C18 for JSON bodies — here it is shown that the *texts* the server decodes are exactly the
texts the client was given, for every byte string.
-/
set_option linter.unusedSimpArgs false
namespace ConjureVerif.C04
open ConjureVerif ConjureVerif.Endpoint ConjureVerif.Uri ConjureVerif.Call ConjureVerif.C07

theorem filter_key_unique {α β : Type} [BEq β] [LawfulBEq β] (f : α → β) : ∀ (l : List α), (l.map f).Nodup →
    ∀ a ∈ l, l.filter (fun b => f b == f a) = [a]
  | [], _, _, ha => by cases ha
  | x :: xs, hn, a, ha => by
    simp only [List.map_cons, List.nodup_cons] at hn
    rcases List.mem_cons.mp ha with rfl | ha'
    · have : xs.filter (fun b => f b == f a) = [] := by
        apply List.filter_eq_nil_iff.mpr
        intro b hb hp
        exact hn.1 (List.mem_map.mpr ⟨b, hb, eq_of_beq hp⟩)
      simp [List.filter_cons, this]
    · have hx : (f x == f a) = false := by
        cases h : f x == f a
        · rfl
        · exact absurd (List.mem_map.mpr ⟨a, ha', (eq_of_beq h).symm⟩) hn.1
      simp only [List.filter_cons, hx]
      exact filter_key_unique f xs hn.2 a ha'

theorem find_of_filter {α : Type} (p : α → Bool) (a : α) : ∀ l : List α, l.filter p = [a] → l.find? p = some a
  | [], h => by cases h
  | x :: xs, h => by
    simp only [List.filter_cons] at h
    simp only [List.find?_cons]
    by_cases hx : p x = true
    · simp only [hx, if_true, List.cons.injEq] at h
      obtain ⟨rfl, -⟩ := h
      simp [hx]
    · simp only [hx] at h ⊢; exact find_of_filter p a xs h

/-- the arguments of one kind -/
def ofKind (k : Kind) (args : List CArg) : List CArg := args.filter (fun a => a.spec.kind == k)

/-- argument names are pairwise distinct within each parameter kind (the Conjure compiler guarantees it), and no
header parameter is called `Authorization` or `Cookie` -/
structure Distinct (args : List CArg) : Prop where
  path : ((ofKind .path args).map (·.spec.name)).Nodup
  query : ((ofKind .query args).map (·.spec.name)).Nodup
  header : ((ofKind .header args).map (·.spec.name)).Nodup
  reserved : ∀ a ∈ args, a.spec.kind = .header → a.spec.name ≠ authorization ∧ a.spec.name ≠ cookie

theorem request_parts (tmpl : List TSeg) (args : List CArg) (wf : CallWF tmpl args)
    (ct : CtClass) (pl : Payload) (dbl : List (Endpoint.Bytes × Bool)) (r : Request)
    (hr : serverRequest Gen.Uri.component tmpl args ct pl dbl = some r) :
    r.pathParams = routed Gen.Uri.component tmpl args ∧
    r.query = queryOf (uriBytes Gen.Uri.component tmpl args) ∧
    clientHeaders args = some r.headers ∧ r.ct = ct ∧ r.payload = pl ∧ r.dbl = dbl := by
  have g := gen_component_good
  unfold serverRequest at hr
  rw [route_uri _ g tmpl args wf] at hr
  cases hh : clientHeaders args with
  | none => simp [hh] at hr
  | some hs => simp only [hh, Option.some.injEq] at hr; subst hr; simp

/-- **path parameters**: whatever byte string the caller passes for a path parameter, the server's `path_param`
obtains exactly that one value — it cannot add segments, end the path or be altered -/
theorem C04_path_arg (tmpl : List TSeg) (args : List CArg) (wf : CallWF tmpl args) (d : Distinct args)
    (a : CArg) (v : Endpoint.Bytes) (ha : a ∈ args) (hk : a.spec.kind = .path) (hv : a.texts = [v])
    (hin : TSeg.param a.spec.name ∈ tmpl)
    (ct : CtClass) (pl : Payload) (dbl : List (Endpoint.Bytes × Bool)) (r : Request)
    (hr : serverRequest Gen.Uri.component tmpl args ct pl dbl = some r) :
    Uri.pathParam ((r.pathParams.lookup a.spec.name).getD []) = [v] := by
  have g := gen_component_good
  rw [(request_parts tmpl args wf ct pl dbl r hr).1, routed_lookup _ args a.spec.name tmpl hin]
  have hmem : a ∈ ofKind .path args := List.mem_filter.mpr ⟨ha, by simp [hk]⟩
  have hfil := filter_key_unique (fun b : CArg => b.spec.name) (ofKind .path args) d.path a hmem
  have hf : args.find? (fun b => b.spec.kind == .path && b.spec.name == a.spec.name) = some a := by
    apply find_of_filter
    rw [← hfil]; unfold ofKind; rw [List.filter_filter]
    congr 1; funext b; simp [Bool.and_comm]
  have : pathText args a.spec.name = v := by simp [pathText, hf, hv]
  rw [this]
  simp only [Option.getD_some]
  exact C07_path_param_one_value _ g v (wf.texts a ha v (by simp [hv]))

/-- **query parameters** (single, optional, list, set): the values the server finds under the argument's key are
exactly the supplied texts, in order — none for an absent optional or an empty collection -/
theorem C04_query_arg (tmpl : List TSeg) (args : List CArg) (wf : CallWF tmpl args) (d : Distinct args)
    (a : CArg) (ha : a ∈ args) (hk : a.spec.kind = .query)
    (ct : CtClass) (pl : Payload) (dbl : List (Endpoint.Bytes × Bool)) (r : Request)
    (hr : serverRequest Gen.Uri.component tmpl args ct pl dbl = some r) :
    queryVals r a.spec.name = a.texts := by
  have g := gen_component_good
  rw [query_values _ g tmpl args wf r (request_parts tmpl args wf ct pl dbl r hr).2.1]
  have hmem : a ∈ ofKind .query args := List.mem_filter.mpr ⟨ha, by simp [hk]⟩
  have := filter_key_unique (fun b : CArg => b.spec.name) (ofKind .query args) d.query a hmem
  unfold ofKind at this
  rw [this]; simp

/-- **header parameters**: the server sees exactly the supplied header texts under the header's name -/
theorem C04_header_arg (tmpl : List TSeg) (args : List CArg) (wf : CallWF tmpl args) (d : Distinct args)
    (a : CArg) (ha : a ∈ args) (hk : a.spec.kind = .header)
    (ct : CtClass) (pl : Payload) (dbl : List (Endpoint.Bytes × Bool)) (r : Request)
    (hr : serverRequest Gen.Uri.component tmpl args ct pl dbl = some r) :
    headerVals r a.spec.name = a.texts := by
  have hh := (request_parts tmpl args wf ct pl dbl r hr).2.2.1
  unfold headerVals
  rw [clientHeaders_vals args r.headers a.spec.name hh (d.reserved a ha hk).1 (d.reserved a ha hk).2]
  have hmem : a ∈ ofKind .header args := List.mem_filter.mpr ⟨ha, by simp [hk]⟩
  have := filter_key_unique (fun b : CArg => b.spec.name) (ofKind .header args) d.header a hmem
  unfold ofKind at this
  rw [this]; simp

/-- **a header value is refused or delivered unaltered**: for any byte string given as a header value, either the
client refuses the call, or the server is handed exactly that byte string — and then rejects it unless it is
text (`to_str`), so a value that HTTP cannot carry as visible ASCII is never delivered to the handler altered -/
theorem C04_header_refused_or_equal (tmpl : List TSeg) (args : List CArg) (wf : CallWF tmpl args) (d : Distinct args)
    (a : CArg) (v : Endpoint.Bytes) (ha : a ∈ args) (hk : a.spec.kind = .header) (hv : a.texts = [v])
    (ct : CtClass) (pl : Payload) (dbl : List (Endpoint.Bytes × Bool)) :
    (headerValueOk v = false → serverRequest Gen.Uri.component tmpl args ct pl dbl = none) ∧
    (∀ r, serverRequest Gen.Uri.component tmpl args ct pl dbl = some r →
      headerVals r a.spec.name = [v] ∧
      (toStrOk v = false → ∀ ext i, ∃ e, decodeHeader ext i a.spec.dec a.spec.ty [v] = .error e)) := by
  constructor
  · intro hbad
    have : clientHeaders args = none :=
      (clientHeaders_none_iff args).mpr ⟨a, ha, hk, v, by simp [hv], hbad⟩
    simp [serverRequest, this]
  · intro r hr
    refine ⟨by rw [C04_header_arg tmpl args wf d a ha hk ct pl dbl r hr, hv], ?_⟩
    intro hts ext i
    unfold decodeHeader
    cases a.spec.dec <;> simp [hts]

/-- **auth**: the `Authorization` (or `Cookie`) header the server parses is the prefix followed by the caller's
token, and `parse_auth_inner` accepts it exactly when the token is valid, yielding that token -/
theorem C04_auth (pfx tok : Endpoint.Bytes) (rest : List Endpoint.Bytes) (htext : toStrOk (pfx ++ tok) = true) :
    (decodeAuth pfx ((pfx ++ tok) :: rest) = .ok () ↔ Token.isValid tok = true) ∧
    stripPrefix pfx (pfx ++ tok) = some tok := by
  have hs : stripPrefix pfx (pfx ++ tok) = some tok := by
    unfold stripPrefix
    simp [List.prefix_append]
  refine ⟨?_, hs⟩
  rw [decodeAuth_ok]
  constructor
  · rintro ⟨v, rest', t, hv, -, hst, hval⟩
    cases hv
    rw [hs] at hst; cases hst; exact hval
  · intro hval
    exact ⟨pfx ++ tok, rest, tok, rfl, htext, hs, hval⟩

/-- the header list the client emits holds the auth header for an auth argument -/
theorem C04_auth_header : ∀ (args : List CArg) (hs : List (Endpoint.Bytes × Endpoint.Bytes)) (a : CArg),
    clientHeaders args = some hs → a ∈ args → a.spec.kind = .auth →
    (authorization, bearer ++ a.texts.headD []) ∈ hs
  | [], _, _, _, ha, _ => by cases ha
  | x :: xs, hs, a, h, ha, hk => by
    unfold clientHeaders at h
    rcases List.mem_cons.mp ha with rfl | ha'
    · simp only [hk] at h
      cases hr : clientHeaders xs with
      | none => simp [hr] at h
      | some hs' => simp only [hr, Option.map_some, Option.some.injEq] at h; subst h; simp
    · cases hx : x.spec.kind <;> simp only [hx] at h
      case header =>
        split at h
        · cases hr : clientHeaders xs with
          | none => simp [hr] at h
          | some hs' =>
            simp only [hr, Option.map_some, Option.some.injEq] at h; subst h
            exact List.mem_append_right _ (C04_auth_header xs hs' a hr ha' hk)
        · cases h
      case auth =>
        cases hr : clientHeaders xs with
        | none => simp [hr] at h
        | some hs' =>
          simp only [hr, Option.map_some, Option.some.injEq] at h; subst h
          exact List.mem_cons_of_mem _ (C04_auth_header xs hs' a hr ha' hk)
      case cookie =>
        cases hr : clientHeaders xs with
        | none => simp [hr] at h
        | some hs' =>
          simp only [hr, Option.map_some, Option.some.injEq] at h; subst h
          exact List.mem_cons_of_mem _ (C04_auth_header xs hs' a hr ha' hk)
      all_goals exact C04_auth_header xs hs a h ha' hk

/-! #### the way back -/

/-- **return values**: what the client's `decode_*_response` yields for the response the server's serializer
produced is the handler's return value — `()`; the value `v` when `parse` (the client's JSON deserializer, C01/C18)
reads the server's document back as `v`; `T::default()` / `None` for an empty collection, absent optional or absent
stream sent as 204; the byte stream itself for binary — for every chunking of the body -/
theorem C04_return_roundtrip (p : Produces) (ret : Ret) (resp : Resp) (h : respond p ret = some resp)
    (bss : List (List Nat)) (hb : bss.flatten = resp.body) (parse : Endpoint.Bytes → Body.Parse) :
    clientDecode p resp (Body.oks bss) parse =
      match ret with
      | .unit => .unit
      | .value isDefault j =>
        if p = .collection ∧ isDefault = true then .default_ else Body.ClientResult.ofParse (parse j)
      | .stream _ => .stream
      | .noStream => .default_ := by
  cases p <;> cases ret <;> simp only [respond] at h
  all_goals try (cases h; done)
  case empty.unit => cases h; simp [clientDecode, clientKind, Body.decodeResponse]
  case std.value d j =>
    cases h
    simp only [clientDecode, clientKind, Body.decodeResponse] at hb ⊢
    rw [show ((RCt.json == RCt.json) = true) from rfl, Body.ser_oks, hb]; simp
  case collection.value d j =>
    cases d
    · simp only [Bool.false_eq_true, if_false, Option.some.injEq] at h; subst h
      simp only [clientDecode, clientKind, Body.decodeResponse] at hb ⊢
      rw [show ((RCt.json == RCt.json) = true) from rfl]
      simp only [Bool.false_eq_true, if_false]
      rw [Body.ser_oks, hb]; simp
    · simp only [if_true, Option.some.injEq] at h; subst h
      simp [clientDecode, clientKind, Body.decodeResponse]
  case binary.stream b => cases h; simp [clientDecode, clientKind, Body.decodeResponse]
  case optBinary.stream b => cases h; simp [clientDecode, clientKind, Body.decodeResponse]
  case optBinary.noStream => cases h; simp [clientDecode, clientKind, Body.decodeResponse]

/-- the serializable response serializers: the encoding is the one the runtime negotiates from the request's `Accept`
(C11), the body is written by that encoding's serializer and the `Content-Type` is that encoding's own; the
collection serializer sends 204 for the empty value and otherwise defers to the standard one -/
theorem gen_response_serializers :
    Gen.ServerModSrc.hashes.lookup "EmptyResponseSerializer::serialize_inner" = some 2631475357265666008 /- "{letmutresponse=Response::new(body);*response.status_mut()=StatusCode::NO_CONTENT;Ok(response)}" -/ ∧
    Gen.ServerModSrc.hashes.lookup "SerializeResponse<(),W> for EmptyResponseSerializer::serialize" = some 4411690840528284411 /- "{Self::serialize_inner(ResponseBody::Empty)}" -/ ∧
    Gen.ServerModSrc.hashes.lookup "AsyncSerializeResponse<(),W> for EmptyResponseSerializer::serialize" = some 8947365739981416789 /- "{Self::serialize_inner(AsyncResponseBody::Empty)}" -/ ∧
    Gen.ServerModSrc.hashes.lookup "StdResponseSerializer::serialize_inner" = some 6024535377672111628 /- "{letencoding=runtime.response_body_encoding(request_headers)?;letmutbody=vec![];value.erased_serialize(&mut*encoding.serializer(&mutbody).serializer()).map_err(Error::internal)?;letmutresponse=Response::new(make_body(body.into()));response.headers_mut().insert(CONTENT_TYPE,encoding.content_type());Ok(response)}" -/ ∧
    Gen.ServerModSrc.hashes.lookup "SerializeResponse<T,W> for StdResponseSerializer::serialize" = some 12355384306275551661 /- "{Self::serialize_inner(runtime,request_headers,&value,ResponseBody::Fixed)}" -/ ∧
    Gen.ServerModSrc.hashes.lookup "AsyncSerializeResponse<T,W> for StdResponseSerializer::serialize" = some 10021612588544366905 /- "{Self::serialize_inner(runtime,request_headers,&value,AsyncResponseBody::Fixed)}" -/ ∧
    Gen.ServerConjureSrc.hashes.lookup "SerializeResponse<T,W> for CollectionResponseSerializer::serialize" = some 14348492882526632244 /- "{ifvalue==T::default(){<EmptyResponseSerializerasSerializeResponse<_,_>>::serialize(runtime,request_headers,(),)}else{<StdResponseSerializerasSerializeResponse<_,_>>::serialize(runtime,request_headers,value,)}}" -/ ∧
    Gen.ServerConjureSrc.hashes.lookup "AsyncSerializeResponse<T,W> for CollectionResponseSerializer::serialize" = some 5846651114718490160 /- "{ifvalue==T::default(){<EmptyResponseSerializerasAsyncSerializeResponse<_,_>>::serialize(runtime,request_headers,(),)}else{<StdResponseSerializerasAsyncSerializeResponse<_,_>>::serialize(runtime,request_headers,value,)}}" -/ := by
  decide +kernel

/-- **whichever encoding the response is negotiated to**: under JSON the negotiated response is the one above; under
either encoding the response is labelled with the content type of the encoding its body is written in, so a client
that reads by Content-Type (with `parse e` the client deserializer of encoding `e`) gets back the handler's value,
or the empty value for a 204 — for every chunking of the body -/
theorem C04_return_roundtrip_negotiated (e : Enc) (p : Produces) (isDefault : Bool) (doc : Enc → Endpoint.Bytes)
    (resp : Resp) (h : respondIn e p isDefault doc = some resp)
    (bss : List (List Nat)) (hb : bss.flatten = resp.body) (parse : Enc → Endpoint.Bytes → Body.Parse) :
    (e = .json → respond p (.value isDefault (doc .json)) = some resp) ∧
    (resp.status204 = false → resp.ct = e.ct ∧ resp.body = doc e) ∧
    readByCt resp (Body.oks bss) parse =
      if p = .collection ∧ isDefault = true then .default_ else Body.ClientResult.ofParse (parse e (doc e)) := by
  cases p <;> simp only [respondIn] at h
  all_goals try (cases h; done)
  case std =>
    cases h
    refine ⟨?_, ?_, ?_⟩
    · intro he; subst he; rfl
    · intro _; exact ⟨rfl, rfl⟩
    · simp only at hb
      cases e <;> simp [readByCt, Enc.ct, Body.ser_oks, hb]
  case collection =>
    cases isDefault
    · simp only [Bool.false_eq_true, if_false, Option.some.injEq] at h; subst h
      refine ⟨?_, ?_, ?_⟩
      · intro he; subst he; rfl
      · intro _; exact ⟨rfl, rfl⟩
      · simp only at hb
        cases e <;> simp [readByCt, Enc.ct, Body.ser_oks, hb]
    · simp only [if_true, Option.some.injEq] at h; subst h
      refine ⟨?_, ?_, ?_⟩
      · intro he; subst he; rfl
      · intro h'; cases h'
      · simp [readByCt]

/-- non-vacuity: a Smile-negotiated value and an empty collection -/
example : respondIn .smile .std false (fun e => if e = .json then [49] else [58, 41, 10, 1, 194]) =
    some { status204 := false, ct := .smile, body := [58, 41, 10, 1, 194] } := by decide
example : respondIn .smile .collection true (fun _ => [91, 93]) = some { status204 := true, ct := .none, body := [] } := by decide

/-! #### composition: the handler runs, once, on what the client sent -/

/-- what it takes for the values a caller supplies to be decodable: right cardinality for the decoder, each text
in the language of its type (true of `to_plain` of any value, by C12/C15/C16), header texts visible ASCII, a valid
token that is text, an acceptable body -/
def Supplied (ext : Endpoint.Bytes → Bool) (ct : CtClass) (pl : Payload) (i : Nat) (a : CArg) : Prop :=
  match a.spec.kind with
  | .path => ∃ v, a.texts = [v] ∧ decodeParam ext i a.spec.dec a.spec.ty [v] = .ok ()
  | .query => decodeParam ext i a.spec.dec a.spec.ty a.texts = .ok ()
  | .header => decodeHeader ext i a.spec.dec a.spec.ty a.texts = .ok ()
  | .auth => ∃ tok, a.texts = [tok] ∧ toStrOk (bearer ++ tok) = true ∧ Token.isValid tok = true
  | .cookie => ∃ tok, a.texts = [tok] ∧ toStrOk (a.spec.name ++ tok) = true ∧ Token.isValid tok = true
  | .body => decodeBody i a.spec.dec ct pl = .ok ()
  | .context => True

/-- **auth arguments**: the server parses exactly the one `Authorization` / `Cookie` value the client wrote for the
endpoint's auth argument -/
theorem C04_auth_arg (tmpl : List TSeg) (args : List CArg) (wf : CallWF tmpl args) (d : Distinct args)
    (a : CArg) (ha : ofKind .auth args = [a])
    (ct : CtClass) (pl : Payload) (dbl : List (Endpoint.Bytes × Bool)) (r : Request)
    (hr : serverRequest Gen.Uri.component tmpl args ct pl dbl = some r) :
    headerVals r authorization = [bearer ++ a.texts.headD []] := by
  have hh := (request_parts tmpl args wf ct pl dbl r hr).2.2.1
  unfold headerVals
  rw [clientHeaders_auth_vals args r.headers hh (fun b hb hk => (d.reserved b hb hk).1)]
  unfold ofKind at ha
  rw [ha]; rfl

theorem C04_cookie_arg (tmpl : List TSeg) (args : List CArg) (wf : CallWF tmpl args) (d : Distinct args)
    (a : CArg) (ha : ofKind .cookie args = [a])
    (ct : CtClass) (pl : Payload) (dbl : List (Endpoint.Bytes × Bool)) (r : Request)
    (hr : serverRequest Gen.Uri.component tmpl args ct pl dbl = some r) :
    headerVals r cookie = [a.spec.name ++ a.texts.headD []] := by
  have hh := (request_parts tmpl args wf ct pl dbl r hr).2.2.1
  unfold headerVals
  rw [clientHeaders_cookie_vals args r.headers hh (fun b hb hk => (d.reserved b hb hk).2)]
  unfold ofKind at ha
  rw [ha]; rfl

/-- **the handler is invoked** (exactly once, by C19) for any call whose supplied values are decodable — i.e. client
output is acceptable server input, whatever the texts contain; an endpoint has at most one auth argument -/
theorem C04_handler_runs (tmpl : List TSeg) (args : List CArg) (wf : CallWF tmpl args) (d : Distinct args)
    (hpaths : ∀ a ∈ args, a.spec.kind = .path → TSeg.param a.spec.name ∈ tmpl)
    (hauth : ∀ a ∈ args, a.spec.kind = .auth → ofKind .auth args = [a])
    (hcookie : ∀ a ∈ args, a.spec.kind = .cookie → ofKind .cookie args = [a])
    (ct : CtClass) (pl : Payload) (dbl : List (Endpoint.Bytes × Bool)) (r : Request)
    (hr : serverRequest Gen.Uri.component tmpl args ct pl dbl = some r)
    (hs : ∀ i a, args[i]? = some a → Supplied (fun t => (dbl.lookup t).getD false) ct pl i a) :
    (handleReq (args.map (·.spec)) r).error = none := by
  rw [C19.C19_all_decode_iff]
  intro k s hk
  rw [List.getElem?_map] at hk
  cases ha : args[k]? with
  | none => simp [ha] at hk
  | some a =>
    simp only [ha, Option.map_some, Option.some.injEq] at hk
    subst hk
    have hmem : a ∈ args := List.mem_of_getElem? ha
    have hsup := hs k a ha
    have parts := request_parts tmpl args wf ct pl dbl r hr
    unfold Supplied at hsup
    unfold decodeArg
    cases hkind : a.spec.kind <;> simp only [hkind] at hsup ⊢
    case path =>
      obtain ⟨v, hv, hd⟩ := hsup
      rw [C04_path_arg tmpl args wf d a v hmem hkind hv (hpaths a hmem hkind) ct pl dbl r hr, parts.2.2.2.2.2, hd]
    case query =>
      rw [C04_query_arg tmpl args wf d a hmem hkind ct pl dbl r hr, parts.2.2.2.2.2, hsup]
    case header =>
      rw [C04_header_arg tmpl args wf d a hmem hkind ct pl dbl r hr, parts.2.2.2.2.2, hsup]
    case body => rw [parts.2.2.2.1, parts.2.2.2.2.1, hsup]
    case auth =>
      obtain ⟨tok, ht, htxt, hval⟩ := hsup
      rw [C04_auth_arg tmpl args wf d a (hauth a hmem hkind) ct pl dbl r hr, ht]
      exact ((C04_auth bearer tok [] htxt).1).mpr hval
    case cookie =>
      obtain ⟨tok, ht, htxt, hval⟩ := hsup
      rw [C04_cookie_arg tmpl args wf d a (hcookie a hmem hkind) ct pl dbl r hr, ht]
      exact ((C04_auth a.spec.name tok [] htxt).1).mpr hval

/-! #### non-vacuity -/
def exTmpl : List TSeg := [.lit [118], .param [112]]
def exArgs : List CArg := [
  { spec := { kind := .path, dec := .one, ty := .str, name := [112], logName := [112], ident := [112], safe := false }, texts := [[47, 63, 35, 37]] },
  { spec := { kind := .query, dec := .seq, ty := .int, name := [113], logName := [113], ident := [113], safe := false }, texts := [[49], [50]] },
  { spec := { kind := .header, dec := .one, ty := .str, name := [104], logName := [104], ident := [104], safe := false }, texts := [[120, 32, 121]] }]

example : (uriBytes Gen.Uri.component exTmpl exArgs) = [47, 118, 47, 37, 50, 70, 37, 51, 70, 37, 50, 51, 37, 50, 53, 63, 113, 61, 49, 38, 113, 61, 50] := by
  decide +kernel
example : ((serverRequest Gen.Uri.component exTmpl exArgs .absent .ok []).map (fun r => (handleReq (exArgs.map (·.spec)) r).error.isNone)) = some true := by
  decide +kernel

end ConjureVerif.C04

/-! ### the generator: what is emitted for an endpoint, for every definition (Model/Emit.lean) -/
namespace ConjureVerif.C04G
open ConjureVerif ConjureVerif.Emit

/-- the generator source this model transcribes: the client method (clients.rs), the server trait method (servers.rs),
the path template parser (http_paths.rs) and the type predicates they consult (context.rs) -/
theorem gen_emit_sources :
    Gen.CodegenClientsSrc.hashes.lookup "fn generate_endpoint" = some 4899617061108162888 /- "{letdocs=ctx.docs(endpoint.docs());letdeprecated=matchendpoint.deprecated(){Some(docs)=>{letdocs=&**docs;quote!{#[deprecated(note=#docs)]}}None=>quote!(),};letasync_=matchstyle{Style::Async=>quote!(async),Style::Sync=>quote!(),};letname=ctx.field_name(endpoint.endpoint_name());letbody_arg=body_arg(endpoint);letparams=params(ctx,body_arg);letauth=quote!(auth_);letauth_arg=auth_arg(endpoint,&auth);l…" -/ ∧
    Gen.CodegenClientsSrc.hashes.lookup "fn body_arg" = some 2187006078158176704 /- "{endpoint.args().iter().find(|a|matches!(a.param_type(),ParameterType::Body(_)))}" -/ ∧
    Gen.CodegenClientsSrc.hashes.lookup "fn return_type" = some 16980912466079708875 /- "{matchendpoint.returns(){Some(ret)=>matchctx.is_optional(ret){Some(inner)ifctx.is_binary(inner)=>ReturnType::OptionalBinary,_ifctx.is_binary(ret)=>ReturnType::Binary,_=>ReturnType::Json(ret),},None=>ReturnType::None,}}" -/ ∧
    Gen.CodegenClientsSrc.hashes.lookup "fn return_type_name" = some 17450906323156107254 /- "{matchty{ReturnType::None=>quote!(()),ReturnType::Json(ty)=>ctx.rust_type(def.service_name(),ty),ReturnType::Binary=>quote!(T::ResponseBody),ReturnType::OptionalBinary=>{letoption=ctx.option_ident(def.service_name());quote!(#option<T::ResponseBody>)}}}" -/ ∧
    Gen.CodegenClientsSrc.hashes.lookup "fn setup_request" = some 14685793083886568292 /- "{matchbody_arg{Some(body_arg)=>{letname=ctx.field_name(body_arg.arg_name());ifctx.is_binary(body_arg.type_()){matchstyle{Style::Sync=>quote!{letmut#request=conjure_http::private::encode_binary_request(#name);},Style::Async=>quote!{letmut#request=conjure_http::private::async_encode_binary_request(#name);},}}else{letfunction=matchstyle{Style::Sync=>quote!(encode_serializable_request),Style::Async=>q…" -/ ∧
    Gen.CodegenClientsSrc.hashes.lookup "fn setup_path" = some 14031793499817745477 /- "{letpath=quote!(path_);letpath_components=setup_path_components(ctx,endpoint,&path);letquery_components=setup_query_components(ctx,endpoint,&path);quote!{letmut#path=conjure_http::private::UriBuilder::new();#path_components#query_components*#request.uri_mut()=#path.build();}}" -/ ∧
    Gen.CodegenClientsSrc.hashes.lookup "fn setup_path_components" = some 10980038237543343386 /- "{letpath_params=endpoint.args().iter().filter(|arg|matches!(arg.param_type(),&ParameterType::Path(_))).map(|arg|{letkey=&***arg.arg_name();letvalue=ctx.field_name(key);(key,value)}).collect::<HashMap<_,_>>();letmutcalls=vec![];letmutcur=String::new();forsegmentinhttp_paths::parse(endpoint.http_path()){matchsegment{PathSegment::Literal(lit)=>{cur.push('/');cur.push_str(lit);}PathSegment::Parameter{…" -/ ∧
    Gen.CodegenClientsSrc.hashes.lookup "fn setup_query_components" = some 8887678359109258859 /- "{letmutcalls=vec![];forargumentinendpoint.args(){letquery=matchargument.param_type(){ParameterType::Query(query)=>query,_=>continue,};letkey=&**query.param_id();letname=ctx.field_name(argument.arg_name());letcall=ifctx.is_optional(argument.type_()).is_some(){quote!{#path.push_optional_query_parameter(#key,&#name);}}elseifctx.is_list(argument.type_()){quote!{#path.push_list_query_parameter(#key,&#n…" -/ ∧
    Gen.CodegenClientsSrc.hashes.lookup "fn setup_headers" = some 7531194371341481828 /- "{letmutcalls=vec![];ifletSome(call)=auth_header(endpoint,request,auth){calls.push(call);}forargumentinendpoint.args(){letheader=matchargument.param_type(){ParameterType::Header(header)=>header,_=>continue,};letheader=header.param_id().to_lowercase();letname=ctx.field_name(argument.arg_name());letcall=ifctx.is_optional(argument.type_()).is_some(){quote!{conjure_http::private::encode_optional_header…" -/ ∧
    Gen.CodegenClientsSrc.hashes.lookup "fn auth_header" = some 4915863944739843995 /- "{matchendpoint.auth(){Some(AuthType::Cookie(cookie))=>{letprefix=format!(\"{}=\",cookie.cookie_name());Some(quote!{conjure_http::private::encode_cookie_auth(&mut#request,#prefix,#auth);})}Some(AuthType::Header(_))=>Some(quote!{conjure_http::private::encode_header_auth(&mut#request,#auth);}),None=>None,}}" -/ ∧
    Gen.CodegenClientsSrc.hashes.lookup "fn setup_response_headers" = some 3759224840772371562 /- "{matchty{ReturnType::None=>quote!{conjure_http::private::encode_empty_response_headers(&mut#request);},ReturnType::Json(_)=>{quote!{conjure_http::private::encode_serializable_response_headers(&mut#request);}}ReturnType::Binary|&ReturnType::OptionalBinary=>quote!{conjure_http::private::encode_binary_response_headers(&mut#request);},}}" -/ ∧
    Gen.CodegenClientsSrc.hashes.lookup "fn setup_endpoint_extension" = some 1424937676276531747 /- "{letservice=service.service_name().name();letversion=matchctx.version(){Some(version)=>quote!{conjure_http::private::Option::Some(#version)},None=>quote!{conjure_http::private::Option::None},};letname=&***endpoint.endpoint_name();letpath=&***endpoint.http_path();quote!{#request.extensions_mut().insert(conjure_http::client::Endpoint::new(#service,#version,#name,#path,));}}" -/ ∧
    Gen.CodegenClientsSrc.hashes.lookup "fn setup_decode_response" = some 4320818972490165265 /- "{match(ty,style){(ReturnType::None,Style::Sync)=>quote!{conjure_http::private::decode_empty_response(#response)},(ReturnType::None,Style::Async)=>quote!{conjure_http::private::async_decode_empty_response(#response).await},(ReturnType::Json(ty),Style::Sync)=>{ifctx.is_iterable(ty){quote!{conjure_http::private::decode_default_serializable_response(#response)}}else{quote!{conjure_http::private::decod…" -/ ∧
    Gen.CodegenServersSrc.hashes.lookup "fn generate_trait_endpoint" = some 16102266904124567240 /- "{letdocs=ctx.docs(endpoint.docs());letmethod=endpoint.http_method().as_str().parse::<TokenStream>().unwrap();letpath=&**endpoint.http_path();letendpoint_name=&**endpoint.endpoint_name();letasync_=matchstyle{Style::Async=>quote!(async),Style::Sync=>quote!(),};letname=ctx.field_name(endpoint.endpoint_name());letproduces=matchendpoint.returns(){Some(ty)=>{letproduces=produces(ctx,ty);quote!(,produces…" -/ ∧
    Gen.CodegenServersSrc.hashes.lookup "fn produces" = some 8558927906836934933 /- "{matchctx.is_optional(ty){Some(inner)ifctx.is_binary(inner)=>{quote!(conjure_http::server::conjure::OptionalBinaryResponseSerializer)}_ifctx.is_binary(ty)=>quote!(conjure_http::server::conjure::BinaryResponseSerializer),_ifctx.is_iterable(ty)=>{quote!(conjure_http::server::conjure::CollectionResponseSerializer)}_=>quote!(conjure_http::server::StdResponseSerializer),}}" -/ ∧
    Gen.CodegenServersSrc.hashes.lookup "fn auth_arg" = some 2819720619934323493 /- "{matchendpoint.auth(){Some(auth)=>{letparams=matchauth{AuthType::Header(_)=>quote!(),AuthType::Cookie(cookie)=>{letname=&cookie.cookie_name();quote!((cookie_name=#name))}};quote!(,#[auth#params]auth_:conjure_object::BearerToken)}None=>quote!(),}}" -/ ∧
    Gen.CodegenServersSrc.hashes.lookup "fn arg" = some 4541912162902917267 /- "{letname=ctx.field_name(arg.arg_name());letlog_as=ifname==**arg.arg_name(){quote!()}else{letlog_as=&**arg.arg_name();quote!(,log_as=#log_as)};letsafe=ifctx.is_safe_arg(arg){quote!(,safe)}else{quote!()};letattr=matcharg.param_type(){ParameterType::Body(_)=>{letdeserializer=ifctx.is_optional(arg.type_()).is_some(){letmutdecoder=quote!(conjure_http::server::conjure::OptionalRequestDeserializer);letde…" -/ ∧
    Gen.CodegenServersSrc.hashes.lookup "fn optional_decoder" = some 8536855735895532482 /- "{letmutdecoder=quote!(conjure_http::server::conjure::FromPlainOptionDecoder);letdealiased=ctx.dealiased_type(ty);ifdealiased!=ty{letdealiased=ctx.rust_type(def.service_name(),dealiased);decoder=quote!(conjure_http::server::FromDecoder<#decoder,#dealiased>)}decoder}" -/ ∧
    Gen.CodegenServersSrc.hashes.lookup "fn request_context_arg" = some 11043518883622856837 /- "{ifhas_request_context(endpoint){quote!(,#[context]request_context_:conjure_http::server::RequestContext<'_>)}else{quote!()}}" -/ ∧
    Gen.CodegenServersSrc.hashes.lookup "fn return_type" = some 15598531446812545551 /- "{matchendpoint.returns(){Some(ty)=>matchctx.is_optional(ty){Some(inner)ifctx.is_binary(inner)=>ReturnType::OptionalBinary,_ifctx.is_binary(ty)=>ReturnType::Binary,_=>ReturnType::Json(ty),},None=>ReturnType::None,}}" -/ ∧
    Gen.CodegenServersSrc.hashes.lookup "fn has_request_context" = some 400118104434433147 /- "{endpoint.tags().iter().any(|t|t==\"server-request-context\")}" -/ ∧
    Gen.CodegenHttpPathsSrc.hashes.lookup "fn parse" = some 15596414897768765345 /- "{path.split('/').skip(1).map(|segment|matchsegment.strip_prefix('{').and_then(|s|s.strip_suffix('}')){Some(segment)=>{letmutit=segment.splitn(2,':');PathSegment::Parameter{name:it.next().unwrap(),_regex:it.next(),}}None=>PathSegment::Literal(segment),},)}" -/ ∧
    Gen.CodegenContextSrc.hashes.lookup "Context::dealiased_type" = some 4920999125965768252 /- "{matchdef{Type::Primitive(_)|Type::Optional(_)|Type::List(_)|Type::Set(_)|Type::Map(_)=>def,Type::Reference(name)=>match&self.types[name].def{TypeDefinition::Enum(_)|TypeDefinition::Object(_)|TypeDefinition::Union(_)=>{def}TypeDefinition::Alias(def)=>self.dealiased_type(def.alias()),},Type::External(def)=>self.dealiased_type(def.fallback()),}}" -/ ∧
    Gen.CodegenContextSrc.hashes.lookup "Context::is_binary" = some 13955510794151340484 /- "{matchdef{Type::Primitive(PrimitiveType::Binary)=>true,Type::Primitive(_)|Type::Optional(_)|Type::List(_)|Type::Set(_)|Type::Map(_)=>false,Type::Reference(def)=>self.is_binary_ref(def),Type::External(def)=>self.is_binary(def.fallback()),}}" -/ ∧
    Gen.CodegenContextSrc.hashes.lookup "Context::is_binary_ref" = some 6344199050894492925 /- "{letctx=&self.types[name];match&ctx.def{TypeDefinition::Alias(def)=>self.is_binary(def.alias()),TypeDefinition::Enum(_)|TypeDefinition::Object(_)|TypeDefinition::Union(_)=>false,}}" -/ ∧
    Gen.CodegenContextSrc.hashes.lookup "Context::is_iterable" = some 15275853327717276524 /- "{matchdef{Type::Primitive(_)=>false,Type::Optional(_)|Type::List(_)|Type::Set(_)|Type::Map(_)=>true,Type::Reference(def)=>self.is_iterable_ref(def),Type::External(def)=>self.is_iterable(def.fallback()),}}" -/ ∧
    Gen.CodegenContextSrc.hashes.lookup "Context::is_iterable_ref" = some 3555025422218363586 /- "{letctx=&self.types[name];match&ctx.def{TypeDefinition::Alias(def)=>self.is_iterable(def.alias()),TypeDefinition::Enum(_)|TypeDefinition::Object(_)|TypeDefinition::Union(_)=>false,}}" -/ ∧
    Gen.CodegenContextSrc.hashes.lookup "Context::is_optional" = some 15310284683605478148 /- "{matchdef{Type::Primitive(_)|Type::List(_)|Type::Set(_)|Type::Map(_)=>None,Type::Optional(def)=>Some(def.item_type()),Type::Reference(def)=>self.is_optional_ref(def),Type::External(def)=>self.is_optional(def.fallback()),}}" -/ ∧
    Gen.CodegenContextSrc.hashes.lookup "Context::is_optional_ref" = some 16060014361428297009 /- "{letctx=&self.types[name];match&ctx.def{TypeDefinition::Alias(def)=>self.is_optional(def.alias()),TypeDefinition::Enum(_)|TypeDefinition::Object(_)|TypeDefinition::Union(_)=>None,}}" -/ ∧
    Gen.CodegenContextSrc.hashes.lookup "Context::is_list" = some 7293379953684849428 /- "{matchdef{Type::List(_)=>true,Type::Primitive(_)|Type::Optional(_)|Type::Set(_)|Type::Map(_)=>false,Type::Reference(def)=>self.is_list_ref(def),Type::External(def)=>self.is_list(def.fallback()),}}" -/ ∧
    Gen.CodegenContextSrc.hashes.lookup "Context::is_list_ref" = some 4472545208240749876 /- "{letctx=&self.types[name];match&ctx.def{TypeDefinition::Alias(def)=>self.is_list(def.alias()),TypeDefinition::Enum(_)|TypeDefinition::Object(_)|TypeDefinition::Union(_)=>false,}}" -/ ∧
    Gen.CodegenContextSrc.hashes.lookup "Context::is_set" = some 18146976111862198898 /- "{matchdef{Type::Set(_)=>true,Type::Primitive(_)|Type::Optional(_)|Type::List(_)|Type::Map(_)=>false,Type::Reference(def)=>self.is_set_ref(def),Type::External(def)=>self.is_set(def.fallback()),}}" -/ ∧
    Gen.CodegenContextSrc.hashes.lookup "Context::is_set_ref" = some 6624238053037641794 /- "{letctx=&self.types[name];match&ctx.def{TypeDefinition::Alias(def)=>self.is_set(def.alias()),TypeDefinition::Enum(_)|TypeDefinition::Object(_)|TypeDefinition::Union(_)=>false,}}" -/ ∧
    Gen.CodegenContextSrc.hashes.lookup "Context::field_name" = some 241302775771227475 /- "{Ident::new(&self.ident_name(s),Span::call_site())}" -/ ∧
    Gen.CodegenContextSrc.hashes.lookup "Context::ident_name" = some 9600903739137547653 /- "{letmuts=s.to_snake_case();letkeyword=match&*s{\"as\"|\"break\"|\"const\"|\"continue\"|\"crate\"|\"else\"|\"enum\"|\"extern\"|\"false\"|\"fn\"|\"for\"|\"if\"|\"impl\"|\"in\"|\"let\"|\"loop\"|\"match\"|\"mod\"|\"move\"|\"mut\"|\"pub\"|\"ref\"|\"return\"|\"self\"|\"static\"|\"struct\"|\"super\"|\"trait\"|\"true\"|\"type\"|\"unsafe\"|\"use\"|\"where\"|\"while\"|\"await\"=>true,\"abstract\"|\"async\"|…" -/ := by
  decide +kernel

/-- the six type predicates are views of one resolution through aliases and imported types, so they never disagree:
optional / list / set / map / binary exclude each other, and iterable is their union without binary -/
theorem C04_emit_predicates_consistent (defs : Defs) (f : Nat) (t : ITy) :
    isOptional defs (f + 1) t = optView (dealiased defs f t) ∧ isList defs (f + 1) t = listView (dealiased defs f t) ∧
    isSet defs (f + 1) t = setView (dealiased defs f t) ∧ isIterable defs (f + 1) t = iterView (dealiased defs f t) ∧
    isBinary defs (f + 1) t = binView (dealiased defs f t) ∧
    (isIterable defs (f + 1) t = ((isOptional defs (f + 1) t).isSome || isList defs (f + 1) t || isSet defs (f + 1) t ||
      mapView (dealiased defs f t))) ∧
    (isBinary defs (f + 1) t = true → isIterable defs (f + 1) t = false) := by
  have hc := views_consistent (dealiased defs f t)
  refine ⟨isOptional_view defs f t, isList_view defs f t, isSet_view defs f t, isIterable_view defs f t, isBinary_view defs f t, ?_, ?_⟩
  · rw [isIterable_view, isOptional_view, isList_view, isSet_view]; exact hc.1
  · rw [isBinary_view, isIterable_view]
    cases dealiased defs f t <;> simp [binView, iterView]

/-- the path the generated client builds is the template, segment by segment, with every parameter (`{name}` or
`{name:regex}`) replaced by the percent-encoded text of the path argument of that name (`Call.uriReq`'s segments) -/
theorem C04_emit_path (tbl : List Nat) (kw : List String) (args : List Arg) (txt : Option String → Emit.Bytes)
    (path : Emit.Bytes) :
    (pathCalls kw args (parsePath path) []).flatMap (callBuf tbl txt) =
      (parsePath path).flatMap (segBuf tbl (fun n => txt ((args.find? (fun a => a.kind == .path && a.name == n)).map (ident kw)))) := by
  simpa using pathCalls_buf tbl kw args txt (parsePath path) []

/-- `{name:regex}` is the parameter `name`; consecutive literal segments are pushed joined -/
example : parsePath [47, 102, 47, 123, 112, 58, 46, 43, 125] = [.lit [102], .param [112]] := by decide
example : pathCalls [] [] [.lit [97], .lit [98], .param [112], .lit [99]] [] =
    [.lit [47, 97, 47, 98], .pathParam none, .lit [47, 99]] := by decide

/-! #### the two generated halves agree, for every definition -/

def callProduces : Option Emit.Produces → Call.Produces
  | none => .empty
  | some .std => .std
  | some .collection => .collection
  | some .binary => .binary
  | some .optionalBinary => .optBinary

def decodeKind : Emit.Decode → Body.Kind
  | .empty => .empty
  | .serializable => .serializable
  | .default_ => .defaultSerializable
  | .binary => .binary
  | .optionalBinary => .optionalBinary

/-- **return types**: for every return type (through any chain of aliases and imported types) the `decode_*`
function the generated client calls is the one that reads what the response serializer named in the generated
server trait writes (`Call.clientKind`, used by `C04_return_roundtrip`), and the `Accept` header asks for it -/
theorem C04_emit_return_agree (defs : Defs) (f : Nat) (r : Option ITy) :
    decodeKind (decodeOf defs f (returnType defs f r)) = Call.clientKind (callProduces (r.map (produces defs f))) ∧
    (acceptOf (returnType defs f r) = .serializable ↔
      (r.map (produces defs f) = some .std ∨ r.map (produces defs f) = some .collection)) ∧
    (acceptOf (returnType defs f r) = .binary ↔
      (r.map (produces defs f) = some .binary ∨ r.map (produces defs f) = some .optionalBinary)) ∧
    (acceptOf (returnType defs f r) = .empty ↔ r = none) := by
  cases r with
  | none => simp [returnType, decodeOf, decodeKind, callProduces, Call.clientKind, acceptOf]
  | some t =>
    simp only [returnType, produces, Option.map_some]
    cases ho : isOptional defs f t with
    | none =>
      simp only
      cases hb : isBinary defs f t <;> cases hi : isIterable defs f t <;>
        simp [decodeOf, decodeKind, callProduces, Call.clientKind, acceptOf, hi]
    | some inner =>
      simp only
      cases hbi : isBinary defs f inner <;> cases hb : isBinary defs f t <;> cases hi : isIterable defs f t <;>
        simp [decodeOf, decodeKind, callProduces, Call.clientKind, acceptOf, hi]

/-- **query arguments**: the generated client sends a query argument (whose type is not a map: Conjure allows
primitives, optionals, lists and sets there) with the push of the cardinality that the decoder named in the server
trait takes, under the same key, from the same Rust identifier -/
theorem C04_emit_query_agree (defs : Defs) (f : Nat) (kw : List String) (a : Arg) (id : Emit.Bytes)
    (hk : a.kind = .query id) (hm : mapView (dealiased defs f a.ty) = false) :
    ∃ d l, serverArg defs (f + 1) kw a = .query id d (ident kw a) l ∧
      d.card = (queryPush defs (f + 1) a.ty).card := by
  unfold serverArg
  rw [hk]
  refine ⟨_, _, rfl, ?_⟩
  rw [queryPush_card defs f a.ty hm]
  cases ho : (isOptional defs (f + 1) a.ty).isSome
  · cases hi : isIterable defs (f + 1) a.ty <;> simp [Dec.card, ho, hi]
  · simp [Dec.card, optionalDec, ho]

/-- **header arguments**: `encode_optional_header` exactly when the server decodes with the option decoder; the
client's header name is the server's, lower-cased (header names are case-insensitive; `http` stores them so) -/
theorem C04_emit_header_agree (defs : Defs) (f : Nat) (kw : List String) (a : Arg) (id : Emit.Bytes)
    (hk : a.kind = .header id) :
    ∃ d l, serverArg defs f kw a = .header id d (ident kw a) l ∧
      (d.card = .opt ↔ (isOptional defs f a.ty).isSome = true) ∧ (d = .one ↔ (isOptional defs f a.ty).isSome = false) := by
  unfold serverArg
  rw [hk]
  refine ⟨_, _, rfl, ?_⟩
  cases ho : (isOptional defs f a.ty).isSome <;> simp [Dec.card, optionalDec, ho]

/-- **bodies**: the client streams the body (`encode_binary_request`) exactly when the server reads it with the
binary deserializer, and serializes it otherwise -/
theorem C04_emit_body_agree (defs : Defs) (f : Nat) (kw : List String) (a : Arg) (hk : a.kind = .body) :
    ∃ d l, serverArg defs (f + 1) kw a = .body d (ident kw a) l ∧
      (d = .binary ↔ isBinary defs (f + 1) a.ty = true) := by
  unfold serverArg
  rw [hk]
  refine ⟨_, _, rfl, ?_⟩
  rw [isOptional_view, isBinary_view]
  have hc := views_consistent (dealiased defs f a.ty)
  cases ho : (optView (dealiased defs f a.ty)).isSome
  · cases hb : binView (dealiased defs f a.ty) <;> simp [ho, hb]
  · have := (hc.2.1 ho).2.2.2
    simp [ho, this]

/-- **auth**: header auth on one side is header auth on the other; a cookie's name on the server is the client's
prefix without its `=`; no auth, no auth call and no auth attribute -/
theorem C04_emit_auth_agree (defs : Defs) (f : Nat) (kw : List String) (e : Endpoint) :
    (e.auth = .none → Call.headerAuth ∉ clientCalls defs f kw e ∧ (∀ p, Call.cookieAuth p ∉ clientCalls defs f kw e) ∧
      (∀ c, SAttr.auth c ∉ serverAttrs defs f kw e)) ∧
    (e.auth = .header → Call.headerAuth ∈ clientCalls defs f kw e ∧ SAttr.auth none ∈ serverAttrs defs f kw e) ∧
    (∀ n, e.auth = .cookie n → Call.cookieAuth (n ++ [61]) ∈ clientCalls defs f kw e ∧ SAttr.auth (some n) ∈ serverAttrs defs f kw e) := by
  have hreq : ∀ c, c = setupRequest defs f kw e.args → (∃ r i, c = .req r i) := by
    intro c hc; unfold setupRequest at hc
    split at hc
    · split at hc <;> exact ⟨_, _, hc⟩
    · exact ⟨_, _, hc⟩
  have hq : ∀ c, c ∈ queryCalls defs f kw e.args → ∃ h k i, c = .query h k i := by
    intro c hc; unfold queryCalls at hc
    obtain ⟨a, -, ha⟩ := List.mem_filterMap.mp hc
    cases hk : a.kind <;> simp [hk] at ha
    exact ⟨_, _, _, ha.symm⟩
  have hh : ∀ c, e.auth = .none → c ∈ headerCalls defs f kw e.auth e.args → ∃ o n i, c = .header o n i := by
    intro c hn hc; unfold headerCalls at hc; rw [hn] at hc
    simp only [List.nil_append] at hc
    obtain ⟨a, -, ha⟩ := List.mem_filterMap.mp hc
    cases hk : a.kind <;> simp [hk] at ha
    exact ⟨_, _, _, ha.symm⟩
  have hs : ∀ (a : Arg) c, serverArg defs f kw a ≠ SAttr.auth c := by
    intro a c; unfold serverArg; cases a.kind <;> simp
  refine ⟨?_, ?_, ?_⟩
  · intro h
    have key : ∀ c, c ∈ clientCalls defs f kw e → c ≠ .headerAuth ∧ ∀ p, c ≠ .cookieAuth p := by
      intro c hc
      simp only [clientCalls, List.mem_append, List.mem_cons, List.mem_singleton, List.not_mem_nil, or_false] at hc
      rcases hc with (((hc | hc) | hc) | hc) | hc
      · obtain ⟨r, i, rfl⟩ := hreq c hc; simp
      · rcases pathCalls_mem kw e.args _ _ c hc with ⟨s, rfl⟩ | ⟨i, rfl⟩ <;> simp
      · obtain ⟨a, b, d, rfl⟩ := hq c hc; simp
      · obtain ⟨a, b, d, rfl⟩ := hh c h hc; simp
      · rcases hc with rfl | rfl | rfl <;> simp
    refine ⟨fun hm => (key _ hm).1 rfl, fun p hm => (key _ hm).2 p rfl, ?_⟩
    intro c hm
    simp only [serverAttrs, h, List.append_nil, List.mem_append, List.mem_cons, List.mem_singleton, List.not_mem_nil, or_false, List.mem_map] at hm
    rcases hm with (hm | ⟨a, -, ha⟩) | hm
    · cases hm
    · exact hs a c ha
    · split at hm <;> simp at hm
  · intro h; simp [clientCalls, headerCalls, serverAttrs, h]
  · intro n h; simp [clientCalls, headerCalls, serverAttrs, h]



/-! #### the generated code and the request model (Lemmas/EmitUri.lean) -/
open ConjureVerif.EmitUri in
/-- **the generated client sends the model's request**: performed with the arguments' PLAIN texts (`txt`, by Rust
identifier) and the token `tok`, the `UriBuilder` calls and the header-writing calls of the generated client method
produce exactly the URI bytes and the header list (or the refusal) that `Call.uriBytes` / `Call.clientHeaders` assign
to the template and to the argument list `authCargs ++ args.map cargOf` — for every definition whose template
parameters each name a path argument -/
theorem C04_generated_request (tbl : List Nat) (defs : Defs) (f : Nat) (ty : Arg → Endpoint.PTy) (safe : Arg → Bool)
    (kw : List String) (txt : String → List Emit.Bytes) (tok : Emit.Bytes) (e : Emit.Endpoint)
    (hp : ∀ n, Seg.param n ∈ parsePath e.path → (e.args.find? (fun a => a.kind == .path && a.name == n)).isSome = true) :
    Uri.buildBuf tbl ((clientCalls defs f kw e).flatMap (pushesOf tbl txt)) =
      Call.uriBytes tbl (tmplOf e) (authCargs e.auth tok ++ e.args.map (cargOf defs f ty safe kw txt)) ∧
    headersOf txt tok (clientCalls defs f kw e) =
      Call.clientHeaders (authCargs e.auth tok ++ e.args.map (cargOf defs f ty safe kw txt)) :=
  emit_request tbl defs f ty safe kw txt tok e hp

open ConjureVerif.EmitUri in
/-- **the generated server trait describes each argument as that model does**: kind, decoder cardinality, wire name,
reported name, identifier — so the handler `#[conjure_endpoints]` expands to works from the same descriptors -/
theorem C04_generated_specs (defs : Defs) (f : Nat) (ty : Arg → Endpoint.PTy) (safe : Arg → Bool) (kw : List String)
    (txt : String → List Emit.Bytes) (a : Arg) :
    specOfAttr (ty a) (safe a) (serverArg defs f kw a) = some (cargOf defs f ty safe kw txt a).spec :=
  spec_of_serverArg defs f ty safe kw txt a

open ConjureVerif.EmitUri in
/-- hence `C04_handler_runs` at the argument list both halves were generated from: a call of the generated client
whose supplied values are decodable reaches the handler of the generated server -/
theorem C04_generated_handler_runs (defs : Defs) (f : Nat) (ty : Arg → Endpoint.PTy) (safe : Arg → Bool) (kw : List String)
    (txt : String → List Emit.Bytes) (tok : Emit.Bytes) (e : Emit.Endpoint)
    (args : List Call.CArg) (hargs : args = authCargs e.auth tok ++ e.args.map (cargOf defs f ty safe kw txt))
    (wf : Call.CallWF (tmplOf e) args) (d : C04.Distinct args)
    (hpaths : ∀ a ∈ args, a.spec.kind = .path → Call.TSeg.param a.spec.name ∈ tmplOf e)
    (hauth : ∀ a ∈ args, a.spec.kind = .auth → C04.ofKind .auth args = [a])
    (hcookie : ∀ a ∈ args, a.spec.kind = .cookie → C04.ofKind .cookie args = [a])
    (ct : Endpoint.CtClass) (pl : Endpoint.Payload) (dbl : List (Endpoint.Bytes × Bool)) (r : Endpoint.Request)
    (hr : Call.serverRequest Gen.Uri.component (tmplOf e) args ct pl dbl = some r)
    (hs : ∀ i a, args[i]? = some a → C04.Supplied (fun t => (dbl.lookup t).getD false) ct pl i a) :
    (Endpoint.handleReq (args.map (·.spec)) r).error = none :=
  C04.C04_handler_runs (tmplOf e) args wf d hpaths hauth hcookie ct pl dbl r hr hs

/-- non-vacuity of `C04_generated_request`'s hypothesis, and the request it yields: `GET /a/{p}?q=…` -/
def exEndpoint : Emit.Endpoint :=
  { method := [71, 69, 84], path := [47, 97, 47, 123, 112, 125], name := [103], auth := .header, context := false, returns := none,
    args := [{ name := [112], snake := "p", kind := .path, ty := .prim false }, { name := [113], snake := "q", kind := .query [113], ty := .list (.prim false) }] }
example : ∀ n, Seg.param n ∈ parsePath exEndpoint.path →
    (exEndpoint.args.find? (fun a => a.kind == .path && a.name == n)).isSome = true := by
  intro n hn
  have hp : parsePath exEndpoint.path = [.lit [97], .param [112]] := by decide
  rw [hp] at hn
  simp only [List.mem_cons, List.not_mem_nil, or_false, reduceCtorEq, false_or, Seg.param.injEq] at hn
  subst hn; decide
example : Uri.buildBuf [37, 47] ((clientCalls [] 4 [] exEndpoint).flatMap (EmitUri.pushesOf [37, 47] (fun _ => [[120, 47], [50]]))) =
    [47, 97, 47, 120, 37, 50, 70, 63, 113, 61, 120, 37, 50, 70, 38, 113, 61, 50] := by decide

/-- non-vacuity: an alias of an alias of `optional<string>` as a query argument, an alias of `list<integer>` as the
return type -/
def exDefs : Defs := [.alias (.optional (.prim false)), .alias (.ref 0), .alias (.list (.prim false)), .other]
example : queryPush exDefs 8 (.ref 1) = .optional ∧ produces exDefs 8 (.ref 2) = .collection ∧
    decodeOf exDefs 8 (returnType exDefs 8 (some (.ref 2))) = .default_ ∧
    optionalDec exDefs 8 (.ref 1) = .opt true ∧ optionalDec exDefs 8 (.optional (.prim false)) = .opt false := by
  decide

end ConjureVerif.C04G
