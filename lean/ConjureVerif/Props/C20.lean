import ConjureVerif.Model.GenOrder
import ConjureVerif.Lemmas.GenOrder
import ConjureVerif.Gen.HashMapUses
import ConjureVerif.Gen.CliMainSrc
/-
C20 — Code generation is deterministic: same definition and options, same bytes.

What a proof can carry: (1) the generator's output does not depend on the enumeration order of its hash maps,
because — extracted from the source on every run — every use of a `HashMap`-typed binding in conjure-codegen is a
key lookup (`[]`, `get`, `contains_key`, `insert`, `collect` into it), never an iteration; (2) the CLI maps its flags
one-to-one onto the library's `Config` setters; (3) every file is written beneath the output directory.
What it cannot exhibit: the per-process hash seed and the file system — separate processes are *run* and their trees
compared by the harness (support, not proof).
-/
set_option linter.unusedSimpArgs false
namespace ConjureVerif.GenOrder
theorem renderRoot_mem (lib : Bool) (t : Trie) (dir : List String) (p : List String × String)
    (h : p ∈ t.renderRoot lib dir) : p ∈ t.render dir ∨ p.1 = dir ++ ["lib.rs"] := by
  cases t with
  | node types subs =>
    simp only [Trie.renderRoot, Trie.render, List.mem_append, List.mem_singleton] at h ⊢
    rcases h with (h | h) | h
    · exact Or.inl (Or.inl (Or.inl h))
    · exact Or.inl (Or.inl (Or.inr h))
    · cases lib
      · exact Or.inl (Or.inr (by simpa using h))
      · right; rw [h]; rfl

end ConjureVerif.GenOrder

namespace ConjureVerif.C20
open ConjureVerif ConjureVerif.GenOrder

/-! #### instantiation -/

/-- the hash-map-typed bindings of conjure-codegen (outside the generated `types` module) -/
theorem gen_hash_maps : Gen.HashMapUses.extractOk = true ∧
    Gen.HashMapUses.maps = [("clients.rs", "path_params"), ("context.rs", "types")] := by decide +kernel

/-- every use of one of them is a lookup by key: no `iter`, `keys`, `values`, `into_iter`, `drain`, `retain`,
`for … in`, and none is passed on to other code -/
theorem gen_only_lookups :
    Gen.HashMapUses.uses.all (fun u => ["index", "get", "contains_key", "insert", "new", "collect"].contains u.2.2.2) = true := by
  decide +kernel

/-- the command-line tool configures the library through exactly these calls, flag by flag -/
theorem gen_cli_maps_flags_to_config :
    Gen.HashMapUses.cliCalls = [("exhaustive", "args.exhaustive"), ("serialize_empty_collections", "args.serialize_empty_collections"),
      ("strip_prefix", "prefix"), ("build_crate", "&product_name,crate_version"), ("version", "product_version"),
      ("generate_files", "&args.input_json,&args.output_directory")] := by decide +kernel

/-- the whole of `main` (flag parsing to `generate_files`) as written when the mapping above was read off -/
theorem gen_cli_main_source : Gen.CliMainSrc.hashes.lookup "fn main" = some 1019855791012054534 := by decide +kernel

/-! #### hash-map order does not matter to lookups -/

theorem lookup_some_iff_mem {κ ν : Type} [BEq κ] [LawfulBEq κ] : ∀ (l : List (κ × ν)), (l.map (·.1)).Nodup →
    ∀ k b, l.lookup k = some b ↔ (k, b) ∈ l
  | [], _, k, b => by simp
  | (k', b') :: rest, hn, k, b => by
    simp only [List.map_cons, List.nodup_cons] at hn
    have ih := lookup_some_iff_mem rest hn.2 k b
    simp only [List.lookup_cons, List.mem_cons, Prod.mk.injEq]
    by_cases hk : (k == k') = true
    · have hkk : k = k' := eq_of_beq hk
      simp only [hk]
      constructor
      · intro h; cases h; exact Or.inl ⟨hkk, rfl⟩
      · rintro (⟨-, rfl⟩ | hmem)
        · rfl
        · exact absurd (List.mem_map.mpr ⟨(k, b), hmem, hkk⟩) hn.1
    · have : (k == k') = false := by simpa using hk
      simp only [this, ih]
      constructor
      · exact Or.inr
      · rintro (⟨rfl, -⟩ | hmem)
        · simp at hk
        · exact hmem

/-- **two enumerations of the same hash map answer every lookup alike** -/
theorem lookup_perm_invariant {κ ν : Type} [BEq κ] [LawfulBEq κ] (l l' : List (κ × ν)) (hp : l.Perm l')
    (hn : (l.map (·.1)).Nodup) (k : κ) : Table.get l k = Table.get l' k := by
  have hn' : (l'.map (·.1)).Nodup := (hp.map (·.1)).nodup_iff.mp hn
  unfold Table.get
  cases h : l.lookup k with
  | some b =>
    have := (lookup_some_iff_mem l hn k b).mp h
    exact ((lookup_some_iff_mem l' hn' k b).mpr (hp.mem_iff.mp this)).symm
  | none =>
    cases h' : l'.lookup k with
    | none => rfl
    | some b =>
      have := (lookup_some_iff_mem l' hn' k b).mp h'
      have := (lookup_some_iff_mem l hn k b).mpr (hp.mem_iff.mpr this)
      rw [h] at this; cases this

/-- **order freedom**: whatever the emitters do with the table, as long as they only look keys up, the whole
generated tree (paths and contents, in writing order) is the same for any two enumerations of the hash map -/
theorem C20_model_order_free {κ ν : Type} [BEq κ] [LawfulBEq κ] (t t' : Table κ ν) (hp : t.Perm t')
    (hn : (t.map (·.1)).Nodup) (items : List Item) (emit : (κ → Option ν) → Item → String) :
    generate t items emit = generate t' items emit := by
  have : Table.get t = Table.get t' := funext (lookup_perm_invariant t t' hp hn)
  unfold generate; rw [this]

/-! #### files are created only beneath the output directory -/

/-- a component is safe when it is the root file, a module-path component of some item, or the (possibly renamed)
module file of some item -/
theorem component_safe {κ ν : Type} [BEq κ] (get : κ → Option ν) (items : List Item)
    (emit : (κ → Option ν) → Item → String)
    (hsafe : ∀ it ∈ items, (∀ c ∈ it.modulePath, safeComponent c = true) ∧ it.name.toList.any badChar = false)
    (c : String)
    (hc : IsComponent (items.foldl (fun t it => Trie.insert it.modulePath (it.name, emit get it) t) Trie.empty) c) :
    safeComponent c = true := by
  obtain ⟨h1, h2⟩ := fold_names get emit items Trie.empty
  rcases hc with rfl | hm | ⟨n, hn, k, rfl⟩
  · decide
  · rcases h2 c hm with h | ⟨it, hit, h⟩
    · simp [Trie.empty, Trie.modNames, Subs.modNames] at h
    · exact (hsafe it hit).1 c h
  · rcases h1 n hn with h | ⟨it, hit, rfl⟩
    · simp [Trie.empty, Trie.typeNames, Subs.typeNames] at h
    · exact safe_renamed it.name (hsafe it hit).2 k

/-- **files only beneath the output directory**: every path the generator writes is the output directory
followed by at least one component, each of which is a module-path component, `<module name>.rs` (the name followed
by underscores when a sub-package goes by it) or `mod.rs`; when module-path components are safe (no separator, not
`.`/`..`) and module names hold no separator — true of the identifiers `module_path`/`module_name` produce — no path
leaves the directory -/
theorem C20_paths_beneath {κ ν : Type} [BEq κ] (table : Table κ ν) (items : List Item)
    (emit : (κ → Option ν) → Item → String)
    (hsafe : ∀ it ∈ items, (∀ c ∈ it.modulePath, safeComponent c = true) ∧ it.name.toList.any badChar = false)
    (p : List String × String) (hp : p ∈ generate table items emit) :
    p.1 ≠ [] ∧ ∀ c ∈ p.1, safeComponent c = true := by
  unfold generate at hp
  obtain ⟨comps, h1, h2, h3⟩ := render_beneath _ [] p hp
  simp only [List.nil_append] at h1
  rw [h1]
  exact ⟨h2, fun c hc => component_safe table.get items emit hsafe c (h3 c hc)⟩

/-- **crate mode**: the generated crate is the manifest and `rustfmt.toml` in the output directory and everything
else beneath `src`; the table's enumeration does not matter here either, and no path leaves the output directory -/
theorem C20_crate_paths_beneath {κ ν : Type} [BEq κ] (table : Table κ ν) (items : List Item)
    (emit : (κ → Option ν) → Item → String) (manifest : String)
    (hsafe : ∀ it ∈ items, (∀ c ∈ it.modulePath, safeComponent c = true) ∧ it.name.toList.any badChar = false)
    (p : List String × String) (hp : p ∈ generateCrate table items emit manifest) :
    (p.1 = ["Cargo.toml"] ∨ p.1 = ["rustfmt.toml"] ∨ ∃ rest, p.1 = "src" :: rest ∧ rest ≠ []) ∧
    ∀ c ∈ p.1, safeComponent c = true := by
  unfold generateCrate at hp
  simp only [List.cons_append, List.nil_append, List.mem_cons] at hp
  rcases hp with rfl | rfl | hp
  · refine ⟨Or.inl rfl, ?_⟩
    intro c hc; simp only [List.mem_singleton] at hc; subst hc; decide
  · refine ⟨Or.inr (Or.inl rfl), ?_⟩
    intro c hc; simp only [List.mem_singleton] at hc; subst hc; decide
  · rcases GenOrder.renderRoot_mem true _ ["src"] p hp with h | h
    · obtain ⟨comps, h1, h2, h3⟩ := render_beneath _ ["src"] p h
      refine ⟨Or.inr (Or.inr ⟨comps, by simpa using h1, h2⟩), ?_⟩
      intro c hc
      rw [h1] at hc
      simp only [List.cons_append, List.nil_append, List.mem_cons] at hc
      rcases hc with rfl | hc
      · decide
      · exact component_safe table.get items emit hsafe c (h3 c hc)
    · refine ⟨Or.inr (Or.inr ⟨["lib.rs"], by simpa using h, by simp⟩), ?_⟩
      intro c hc; rw [h] at hc
      simp only [List.cons_append, List.nil_append, List.mem_cons, List.not_mem_nil, or_false] at hc
      rcases hc with rfl | rfl <;> decide

theorem C20_crate_order_free {κ ν : Type} [BEq κ] [LawfulBEq κ] (t t' : Table κ ν) (hp : t.Perm t')
    (hn : (t.map (·.1)).Nodup) (items : List Item) (emit : (κ → Option ν) → Item → String) (manifest : String) :
    generateCrate t items emit manifest = generateCrate t' items emit manifest := by
  have hget : t.get = t'.get := by
    funext k; exact lookup_perm_invariant t t' hp hn k
  unfold generateCrate; rw [hget]


/-! #### non-vacuity: two enumerations of one table, with distinct keys -/
example : ([(1, "a"), (2, "b")] : List (Nat × String)).Perm [(2, "b"), (1, "a")] ∧
    (([(1, "a"), (2, "b")] : List (Nat × String)).map (·.1)).Nodup := by
  refine ⟨List.Perm.swap _ _ _, by decide⟩
example : Table.get ([(1, "a"), (2, "b")] : List (Nat × String)) 2 = Table.get [(2, "b"), (1, "a")] 2 := by decide
example : safeComponent "verif_service.rs" = true ∧ safeComponent ".." = false ∧ safeComponent "a/b" = false := by decide

end ConjureVerif.C20
