import ConjureVerif.Model.GenOrder
import ConjureVerif.Gen.HashMapUses
import ConjureVerif.Gen.CliMainSrc
/-
C20 — Code generation is deterministic: same definition and options, same bytes.

What a proof can carry: (1) the generator's output does not depend on the enumeration order of its hash maps,
because — extracted from the source on every run — every use of a `HashMap`-typed binding in conjure-codegen is a
key lookup (`[]`, `get`, `contains_key`, `insert`, `collect` into it), never an iteration; (2) the CLI maps its flags
one-to-one onto the library's `Config` setters; (3) every file is written beneath the output directory.
What it cannot exhibit: the per-process hash seed and the file system — separate processes are *run* and their trees
compared by the harness (support, not proof).
-/
set_option linter.unusedSimpArgs false
namespace ConjureVerif.C20
open ConjureVerif ConjureVerif.GenOrder

/-! #### instantiation -/

/-- the hash-map-typed bindings of conjure-codegen (outside the generated `types` module) -/
theorem gen_hash_maps : Gen.HashMapUses.extractOk = true ∧
    Gen.HashMapUses.maps = [("clients.rs", "path_params"), ("context.rs", "types")] := by decide +kernel

/-- every use of one of them is a lookup by key: no `iter`, `keys`, `values`, `into_iter`, `drain`, `retain`,
`for … in`, and none is passed on to other code -/
theorem gen_only_lookups :
    Gen.HashMapUses.uses.all (fun u => ["index", "get", "contains_key", "insert", "new", "collect"].contains u.2.2.2) = true := by
  decide +kernel

/-- the command-line tool configures the library through exactly these calls, flag by flag -/
theorem gen_cli_maps_flags_to_config :
    Gen.HashMapUses.cliCalls = [("exhaustive", "args.exhaustive"), ("serialize_empty_collections", "args.serialize_empty_collections"),
      ("strip_prefix", "prefix"), ("build_crate", "&product_name,crate_version"), ("version", "product_version"),
      ("generate_files", "&args.input_json,&args.output_directory")] := by decide +kernel

/-- the whole of `main` (flag parsing to `generate_files`) as written when the mapping above was read off -/
theorem gen_cli_main_source : Gen.CliMainSrc.hashes.lookup "fn main" = some 1019855791012054534 := by decide +kernel

/-! #### hash-map order does not matter to lookups -/

theorem lookup_some_iff_mem {κ ν : Type} [BEq κ] [LawfulBEq κ] : ∀ (l : List (κ × ν)), (l.map (·.1)).Nodup →
    ∀ k b, l.lookup k = some b ↔ (k, b) ∈ l
  | [], _, k, b => by simp
  | (k', b') :: rest, hn, k, b => by
    simp only [List.map_cons, List.nodup_cons] at hn
    have ih := lookup_some_iff_mem rest hn.2 k b
    simp only [List.lookup_cons, List.mem_cons, Prod.mk.injEq]
    by_cases hk : (k == k') = true
    · have hkk : k = k' := eq_of_beq hk
      simp only [hk]
      constructor
      · intro h; cases h; exact Or.inl ⟨hkk, rfl⟩
      · rintro (⟨-, rfl⟩ | hmem)
        · rfl
        · exact absurd (List.mem_map.mpr ⟨(k, b), hmem, hkk⟩) hn.1
    · have : (k == k') = false := by simpa using hk
      simp only [this, ih]
      constructor
      · exact Or.inr
      · rintro (⟨rfl, -⟩ | hmem)
        · simp at hk
        · exact hmem

/-- **two enumerations of the same hash map answer every lookup alike** -/
theorem lookup_perm_invariant {κ ν : Type} [BEq κ] [LawfulBEq κ] (l l' : List (κ × ν)) (hp : l.Perm l')
    (hn : (l.map (·.1)).Nodup) (k : κ) : Table.get l k = Table.get l' k := by
  have hn' : (l'.map (·.1)).Nodup := (hp.map (·.1)).nodup_iff.mp hn
  unfold Table.get
  cases h : l.lookup k with
  | some b =>
    have := (lookup_some_iff_mem l hn k b).mp h
    exact ((lookup_some_iff_mem l' hn' k b).mpr (hp.mem_iff.mp this)).symm
  | none =>
    cases h' : l'.lookup k with
    | none => rfl
    | some b =>
      have := (lookup_some_iff_mem l' hn' k b).mp h'
      have := (lookup_some_iff_mem l hn k b).mpr (hp.mem_iff.mpr this)
      rw [h] at this; cases this

/-- **order freedom**: whatever the emitters do with the table, as long as they only look keys up, the whole
generated tree (paths and contents, in writing order) is the same for any two enumerations of the hash map -/
theorem C20_model_order_free {κ ν : Type} [BEq κ] [LawfulBEq κ] (t t' : Table κ ν) (hp : t.Perm t')
    (hn : (t.map (·.1)).Nodup) (items : List Item) (emit : (κ → Option ν) → Item → String) :
    generate t items emit = generate t' items emit := by
  have : Table.get t = Table.get t' := funext (lookup_perm_invariant t t' hp hn)
  unfold generate; rw [this]

/-! #### files are created only beneath the output directory -/

theorem mem_components_node (types : List (String × String)) (subs : Subs) (c : String) :
    c ∈ (Trie.node types subs).components ↔ (∃ ty ∈ types, c = ty.1 ++ ".rs") ∨ c = "mod.rs" ∨ c ∈ subs.components := by
  simp only [Trie.components, List.mem_append, List.mem_cons, List.mem_map]
  constructor
  · rintro (⟨ty, h, rfl⟩ | h | h)
    · exact Or.inl ⟨ty, h, rfl⟩
    · exact Or.inr (Or.inl h)
    · exact Or.inr (Or.inr h)
  · rintro (⟨ty, h, rfl⟩ | h | h)
    · exact Or.inl ⟨ty, h, rfl⟩
    · exact Or.inr (Or.inl h)
    · exact Or.inr (Or.inr h)

theorem mem_components_cons (k : String) (t : Trie) (more : Subs) (c : String) :
    c ∈ (Subs.cons k t more).components ↔ c = k ∨ c ∈ t.components ∨ c ∈ more.components := by
  simp only [Subs.components, List.mem_cons, List.mem_append, or_assoc]

mutual
theorem render_beneath : ∀ (t : Trie) (dir : List String) (p : List String × String), p ∈ t.render dir →
    ∃ comps, p.1 = dir ++ comps ∧ comps ≠ [] ∧ ∀ c ∈ comps, c ∈ t.components
  | .node types subs, dir, p, hp => by
    simp only [Trie.render, List.mem_append, List.mem_map, List.mem_singleton] at hp
    rcases hp with (⟨ty, hty, rfl⟩ | hs) | rfl
    · refine ⟨[ty.1 ++ ".rs"], rfl, by simp, ?_⟩
      intro c hc
      rw [List.mem_singleton] at hc; subst hc
      exact (mem_components_node _ _ _).mpr (Or.inl ⟨ty, hty, rfl⟩)
    · obtain ⟨comps, h1, h2, h3⟩ := renderSubs_beneath subs dir p hs
      exact ⟨comps, h1, h2, fun c hc => (mem_components_node _ _ _).mpr (Or.inr (Or.inr (h3 c hc)))⟩
    · refine ⟨["mod.rs"], rfl, by simp, ?_⟩
      intro c hc
      rw [List.mem_singleton] at hc; subst hc
      exact (mem_components_node _ _ _).mpr (Or.inr (Or.inl rfl))
theorem renderSubs_beneath : ∀ (s : Subs) (dir : List String) (p : List String × String), p ∈ s.render dir →
    ∃ comps, p.1 = dir ++ comps ∧ comps ≠ [] ∧ ∀ c ∈ comps, c ∈ s.components
  | .nil, _, _, hp => by simp [Subs.render] at hp
  | .cons name t rest, dir, p, hp => by
    simp only [Subs.render, List.mem_append] at hp
    rcases hp with h | h
    · obtain ⟨comps, h1, _, h3⟩ := render_beneath t (dir ++ [name]) p h
      refine ⟨name :: comps, by rw [h1]; simp, by simp, ?_⟩
      intro c hc
      rw [mem_components_cons]
      rcases List.mem_cons.mp hc with rfl | hc
      · exact Or.inl rfl
      · exact Or.inr (Or.inl (h3 c hc))
    · obtain ⟨comps, h1, h2, h3⟩ := renderSubs_beneath rest dir p h
      exact ⟨comps, h1, h2, fun c hc => (mem_components_cons _ _ _ _).mpr (Or.inr (Or.inr (h3 c hc)))⟩
end

theorem empty_components (c : String) : c ∈ (Trie.node [] Subs.nil).components → c = "mod.rs" := by
  intro h
  rcases (mem_components_node _ _ _).mp h with ⟨ty, h, -⟩ | h | h
  · cases h
  · exact h
  · simp [Subs.components] at h

mutual
theorem insert_components : ∀ (path : List String) (ty : String × String) (t : Trie) (c : String),
    c ∈ (Trie.insert path ty t).components → c ∈ t.components ∨ c ∈ path ∨ c = ty.1 ++ ".rs" ∨ c = "mod.rs"
  | [], ty, .node types subs, c, h => by
    simp only [Trie.insert] at h
    rcases (mem_components_node _ _ _).mp h with ⟨ty', hty, hc⟩ | h | h
    · rcases List.mem_append.mp hty with h' | h'
      · exact Or.inl ((mem_components_node _ _ _).mpr (Or.inl ⟨ty', h', hc⟩))
      · rw [List.mem_singleton] at h'; subst h'; exact Or.inr (Or.inr (Or.inl hc))
    · exact Or.inr (Or.inr (Or.inr h))
    · exact Or.inl ((mem_components_node _ _ _).mpr (Or.inr (Or.inr h)))
  | m :: rest, ty, .node types subs, c, h => by
    simp only [Trie.insert] at h
    rcases (mem_components_node _ _ _).mp h with ⟨ty', hty, hc⟩ | h | h
    · exact Or.inl ((mem_components_node _ _ _).mpr (Or.inl ⟨ty', hty, hc⟩))
    · exact Or.inr (Or.inr (Or.inr h))
    · rcases insertSubs_components m rest ty subs c h with h | h | h | h
      · exact Or.inl ((mem_components_node _ _ _).mpr (Or.inr (Or.inr h)))
      · exact Or.inr (Or.inl h)
      · exact Or.inr (Or.inr (Or.inl h))
      · exact Or.inr (Or.inr (Or.inr h))
theorem insertSubs_components : ∀ (m : String) (rest : List String) (ty : String × String) (s : Subs) (c : String),
    c ∈ (Subs.insert m rest ty s).components → c ∈ s.components ∨ c ∈ m :: rest ∨ c = ty.1 ++ ".rs" ∨ c = "mod.rs"
  | m, rest, ty, .nil, c, h => by
    simp only [Subs.insert] at h
    rcases (mem_components_cons _ _ _ _).mp h with rfl | h | h
    · exact Or.inr (Or.inl (by simp))
    · rcases insert_components rest ty (.node [] .nil) c h with h | h | h | h
      · exact Or.inr (Or.inr (Or.inr (empty_components c h)))
      · exact Or.inr (Or.inl (List.mem_cons_of_mem _ h))
      · exact Or.inr (Or.inr (Or.inl h))
      · exact Or.inr (Or.inr (Or.inr h))
    · simp [Subs.components] at h
  | m, rest, ty, .cons k t more, c, h => by
    simp only [Subs.insert] at h
    split at h
    · rcases (mem_components_cons _ _ _ _).mp h with rfl | h | h
      · exact Or.inr (Or.inl (by simp))
      · rcases insert_components rest ty (.node [] .nil) c h with h | h | h | h
        · exact Or.inr (Or.inr (Or.inr (empty_components c h)))
        · exact Or.inr (Or.inl (List.mem_cons_of_mem _ h))
        · exact Or.inr (Or.inr (Or.inl h))
        · exact Or.inr (Or.inr (Or.inr h))
      · exact Or.inl h
    · split at h
      · rcases (mem_components_cons _ _ _ _).mp h with h | h | h
        · exact Or.inl ((mem_components_cons _ _ _ _).mpr (Or.inl h))
        · rcases insert_components rest ty t c h with h | h | h | h
          · exact Or.inl ((mem_components_cons _ _ _ _).mpr (Or.inr (Or.inl h)))
          · exact Or.inr (Or.inl (List.mem_cons_of_mem _ h))
          · exact Or.inr (Or.inr (Or.inl h))
          · exact Or.inr (Or.inr (Or.inr h))
        · exact Or.inl ((mem_components_cons _ _ _ _).mpr (Or.inr (Or.inr h)))
      · rcases (mem_components_cons _ _ _ _).mp h with h | h | h
        · exact Or.inl ((mem_components_cons _ _ _ _).mpr (Or.inl h))
        · exact Or.inl ((mem_components_cons _ _ _ _).mpr (Or.inr (Or.inl h)))
        · rcases insertSubs_components m rest ty more c h with h | h | h | h
          · exact Or.inl ((mem_components_cons _ _ _ _).mpr (Or.inr (Or.inr h)))
          · exact Or.inr (Or.inl h)
          · exact Or.inr (Or.inr (Or.inl h))
          · exact Or.inr (Or.inr (Or.inr h))
end

theorem fold_components {κ ν : Type} [BEq κ] (get : κ → Option ν) (emit : (κ → Option ν) → Item → String) :
    ∀ (items : List Item) (t : Trie) (c : String),
    c ∈ (items.foldl (fun t it => Trie.insert it.modulePath (it.name, emit get it) t) t).components →
    c ∈ t.components ∨ (∃ it ∈ items, c ∈ it.modulePath ∨ c = it.name ++ ".rs") ∨ c = "mod.rs"
  | [], t, c, h => Or.inl h
  | it :: rest, t, c, h => by
    simp only [List.foldl_cons] at h
    rcases fold_components get emit rest _ c h with h | ⟨it', hit', h⟩ | h
    · rcases insert_components it.modulePath (it.name, emit get it) t c h with h | h | h | h
      · exact Or.inl h
      · exact Or.inr (Or.inl ⟨it, by simp, Or.inl h⟩)
      · exact Or.inr (Or.inl ⟨it, by simp, Or.inr h⟩)
      · exact Or.inr (Or.inr h)
    · exact Or.inr (Or.inl ⟨it', List.mem_cons_of_mem _ hit', h⟩)
    · exact Or.inr (Or.inr h)

/-- **files only beneath the output directory**: every path the generator writes is the output directory
followed by at least one component, each of which is a module-path component, `<module name>.rs` or `mod.rs`;
when those are safe components (no separator, not `.`/`..` — true of the identifiers `module_path`/`module_name`
produce), no path leaves the directory -/
theorem C20_paths_beneath {κ ν : Type} [BEq κ] (table : Table κ ν) (items : List Item)
    (emit : (κ → Option ν) → Item → String)
    (hsafe : ∀ it ∈ items, (∀ c ∈ it.modulePath, safeComponent c = true) ∧ safeComponent (it.name ++ ".rs") = true)
    (p : List String × String) (hp : p ∈ generate table items emit) :
    p.1 ≠ [] ∧ ∀ c ∈ p.1, safeComponent c = true := by
  unfold generate at hp
  obtain ⟨comps, h1, h2, h3⟩ := render_beneath _ [] p hp
  simp only [List.nil_append] at h1
  rw [h1]
  refine ⟨h2, ?_⟩
  intro c hc
  rcases fold_components table.get emit items Trie.empty c (h3 c hc) with h | ⟨it, hit, h | h⟩ | h
  · rw [empty_components c h]; decide
  · exact (hsafe it hit).1 c h
  · rw [h]; exact (hsafe it hit).2
  · subst h; decide

/-! #### non-vacuity: two enumerations of one table, with distinct keys -/
example : ([(1, "a"), (2, "b")] : List (Nat × String)).Perm [(2, "b"), (1, "a")] ∧
    (([(1, "a"), (2, "b")] : List (Nat × String)).map (·.1)).Nodup := by
  refine ⟨List.Perm.swap _ _ _, by decide⟩
example : Table.get ([(1, "a"), (2, "b")] : List (Nat × String)) 2 = Table.get [(2, "b"), (1, "a")] 2 := by decide
example : safeComponent "verif_service.rs" = true ∧ safeComponent ".." = false ∧ safeComponent "a/b" = false := by decide

end ConjureVerif.C20
