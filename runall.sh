#!/bin/sh
# runs every claimed check (quick by default) on the current tree; used before committing evidence
cd "$(dirname "$0")"
tier="${1:-quick}"
rc=0
for id in $(python3 -c "import json;print(' '.join(c['property_id'] for c in json.load(open('MANIFEST.json'))['checks']))"); do
  out=$(./check "$id" "$tier"); [ $? -eq 0 ] || rc=1
  printf '%s\n' "$out" | cut -c1-300
done
python3-vt validate.py || rc=1
exit $rc
