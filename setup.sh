#!/bin/sh
# Builds the framework from files on disk only (offline): the Rust harness against /repo, the
# generated Lean tables, every Lean module (models, lemmas, property theorems) and the model driver.
set -e
cd "$(dirname "$0")"
export CARGO_NET_OFFLINE=true
mkdir -p work evidence replays
(cd harness && cargo build --offline --quiet)
./harness/target/debug/harness extract lean/ConjureVerif/Gen
(cd lean && lake build ConjureVerif driver)
